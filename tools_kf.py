"""Maintenance helper (not used by checks): add an engine-C known finding with a replay input found by native search.
usage: tools_kf.py <property> <module> <func> <label> <id> <what>   (candidate selector vectors come from <module>.CANDIDATES())"""
import importlib
import json
import os
import sys

os.environ["VERIF_KF_OFF"] = "1"
sys.path.insert(0, "/verif")
from vlib.hsupport import RepoFailure  # noqa: E402

prop, module, func, label, id_, what = sys.argv[1:7]
mod = importlib.import_module(module)
fn = getattr(mod, func)
found = None
for args in mod.CANDIDATES(func):
    try:
        fn(*args)
    except RepoFailure as e:
        if label in str(e).split("; "):
            found = args
            break
    except Exception as e:  # noqa: BLE001
        if label == f"exc:{type(e).__name__}":
            found = args
            break
if found is None:
    sys.exit(f"no candidate input produces label {label!r}")
kf = json.load(open("/verif/known_findings.json"))
kf["findings"] = [f for f in kf["findings"] if f["id"] != id_]
kf["findings"].append({"id": id_, "property": prop, "engine": "C", "label": label, "what": what,
                       "replay": {"module": module, "func": func, "args": list(found)}})
json.dump(kf, open("/verif/known_findings.json", "w"), indent=1)
print("added", id_, "replay", found)
