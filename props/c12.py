"""C12 - the API JSON is a complete, internally consistent inventory."""
from vlib.plan import CH, K

FUNCTIONS = [
    "safeds_stubgen.api_analyzer._api:API.to_dict",
    "safeds_stubgen.api_analyzer._api:Module.to_dict",
    "safeds_stubgen.api_analyzer._api:Class.to_dict",
    "safeds_stubgen.api_analyzer._api:Function.to_dict",
    "safeds_stubgen.api_analyzer._api:Enum.to_dict",
    "safeds_stubgen.api_analyzer._ast_walker:ASTWalker.walk",
    "safeds_stubgen.api_analyzer._ast_visitor:MyPyAstVisitor._create_id_from_stack",
    "safeds_stubgen.api_analyzer._ast_visitor:MyPyAstVisitor.leave_classdef",
    "safeds_stubgen.api_analyzer._ast_visitor:MyPyAstVisitor.leave_funcdef",
    "safeds_stubgen.api_analyzer._ast_visitor:MyPyAstVisitor.leave_enumdef",
    "safeds_stubgen.api_analyzer._ast_visitor:MyPyAstVisitor.leave_assignmentstmt",
    "safeds_stubgen.api_analyzer._ast_visitor:MyPyAstVisitor._parse_attributes",
]
EXPLANATION = (
    "Engine K: the real AST of _create_id_from_stack yields '<module id>/<class>/<function>/<name>' for every module id and "
    "all identifier names within the bound (the pending-assignment list on the stack contributes nothing) and is "
    "injective on identifier names. Engine C on the mypy shim: the real ASTWalker + MyPyAstVisitor run on every module tree of the grammar G_ast "
    "(module docstring; functions public/private/decorated; classes whose bodies hold annotated / inferred / "
    "tuple-target class attributes, instance/static/class methods, read-only and read/write properties, overloads with "
    "implementation, a constructor assigning instance attributes and re-assigning a class attribute, nested classes, "
    "repeated assignments, private methods; enum classes with members; module-level assignments). The resulting "
    "API.to_dict() must be JSON-serialisable with schemaVersion 1; every top-level list sorted by id and duplicate-free; "
    "every id '<owner id>/<name>'; every id referenced from a module, class, function or enum resolves; every "
    "non-module entry referenced by exactly one owner; static/class-method/property flags as in the source; and "
    "nothing registered that the source does not contain. Shim conformance (every run): 300 module trees are rendered "
    "to Python, parsed by the real mypy, and the real walker+visitor must give the same API and the same errors on "
    "real nodes, on their generic shim conversion and on the builder-made nodes."
    ' G_ast includes superclasses written with type arguments, functions inside module-level if blocks, overloaded static methods with decorated implementation and constructors with item / nested / starred / local / foreign-object assignment targets.'
)
ASSUMPTIONS = [
    "mypy shim validated against the real mypy on every run; plaintext docstrings; empty alias table",
    "superclass lists / alias resolution and default values are not part of this harness (default values: C06)",
]
BOUNDS = {"quick": "<= 2 top-level definitions; class bodies of <= 2 items (<= 1 when the module has two definitions): ~1100 trees",
          "thorough": "as quick, plus all five superclass lists for every class of a one-definition module"}
MANIFEST = {
    "text": "Bounded symbolic: the inventory produced by the real walker and visitor is checked for every module tree "
            "within the bound by CrossHair partitions ending in 'Confirmed over all paths'.",
    "note": "Trusted: CrossHair/z3; the mypy shim, whose builders are checked against the real mypy on every run. "
            "mypy itself is outside the claim. Known findings: enums nested in classes; superclasses written with type arguments.",
    "technique": "CrossHair symbolic execution of the real walker/visitor on a validated mypy shim; referential-integrity oracle",
}


def plan(tier):
    t = 400 if tier == "quick" else 900
    parts = ["0:0,1:0", "0:1,1:0"] + [f"0:{d},1:{n},2:{k}" for d in range(2) for n in (1, 2) for k in range(7)]
    return [
        K("conformance", "harness.walk", "conformance_job", "shim builders vs real mypy", timeout=1200),
        K("k_ids", "kjobs.c12", "id_from_stack", "ids = owner path + '/' + name; injective on identifier names"),
        CH("inventory", "harness.walk", "inventory", parts, timeout=t, desc="API inventory consistent and complete",
           stubs=["mypy node classes -> validated shim", "plaintext docstring parser"], symbolic="module-tree selectors"),
    ]
