"""C05 - type hints are translated faithfully and compositionally."""
from vlib.plan import CH, K

FUNCTIONS = [
    "safeds_stubgen.api_analyzer._ast_visitor:MyPyAstVisitor.mypy_type_to_abstract_type",
    "safeds_stubgen.stubs_generator._stub_string_generator:StubsStringGenerator._create_type_string",
]
EXPLANATION = (
    "Two differential harnesses against one reference mapping written from the statement (oracle/typemap.py; unions as "
    "sets, T? == union<T, Nothing?>, literal members merged): (analyser) annotation terms are built as shim mypy types "
    "and pushed through the real mypy_type_to_abstract_type; (gen) the corresponding API types are pushed through the "
    "real _create_type_string and the result is parsed by the independent recogniser; both results are compared, in "
    "canonical form, with the reference image of the term. Terms: every constructor of the statement (int/str/bool/"
    "float/None/Any, class, type variable, list/Sequence/Collection, set, tuple, dict/Mapping, union, Optional, Literal "
    "of str/int/bool, Callable with 0-1 parameters and 0-2 results, generic class) applied to 12 leaves (depth 1), and "
    "9 outer constructors around every depth-1 term over 4 leaves (depth 2). (positions) every depth-1 term over 4 leaves, bare and wrapped in list / Optional / "
    "dict value, is placed as parameter annotation, constructor-parameter annotation, return annotation, class "
    "attribute annotation and constructor-assigned attribute annotation of one module (shim tree, validated against "
    "the real mypy on every run); the real walker+visitor must give all five the reference image of the term. "
    "(name_dispatch) the class NAME of an "
    "Instance is a SYMBOLIC string (<= 4 characters): every name outside the translator's built-in table yields a "
    "class reference carrying exactly that name - z3 decides the membership tests of the name-based dispatch."
)
ASSUMPTIONS = [
    "terms are those Python/mypy can produce: no union directly inside a union, no duplicate union members (mypy "
    "simplifies them itself)",
    "the mypy shim stands for mypy's analysed and un-analysed types; its position builders are validated against the "
    "real mypy on every run; the Final / list[int, str] special cases are not covered",
    "literal values from {'a', 1, True, 2}; class/typevar/generic names fixed except in name_dispatch",
]
BOUNDS = {"quick": "4186 terms (depth 1 over 12 leaves; depth 2 = 9 outer constructors x depth-1 over 4 leaves); names <= 4 chars",
          "thorough": "depth 2 inner pool of 8 leaves, unions of 3"}
MANIFEST = {
    "text": "Bounded symbolic: every annotation term within the bound is translated by the real analyser-side and "
            "generator-side functions under CrossHair and compared with a reference mapping; the name-based dispatch is "
            "decided for a symbolic class name.",
    "note": "Trusted: CrossHair/z3; the reference mapping; the recogniser; the shim's type builders. Not covered: "
            "unanalysed-type special cases, position consistency, depth > 2.",
    "technique": "CrossHair symbolic execution, differential against a reference type mapping; symbolic string for the class-name dispatch",
}


def plan(tier):
    t = 300 if tier == "quick" else 900
    parts = [f"0:0,1:{k}" for k in range(14)] + [f"0:1,1:{o}" for o in range(9)]
    if tier == "thorough":
        parts = [f"0:0,1:{k}" for k in range(14)] + [f"0:1,1:{o},2:{k}" for o in range(9) for k in range(14)]
    return [
        CH("analyser", "harness.c05", "analyser", parts, timeout=t, desc="mypy type -> API type vs reference",
           stubs=["mypy type classes -> shim"], symbolic="term selectors"),
        CH("gen", "harness.c05", "gen", parts, timeout=t, desc="API type -> stub type string vs reference", symbolic="term selectors"),
        K("conformance", "harness.c05pos", "conformance_job", "position builders vs real mypy", timeout=900),
        CH("positions", "harness.c05pos", "positions", [f"0:{o},1:{k}" for o in range(4) for k in range(14) if k != 11 and not (o == 2 and k in (5, 9))], timeout=t,
           desc="same annotation, same API type in five positions", stubs=["mypy -> validated shim"], symbolic="term selectors"),
        CH("name_dispatch", "harness.c05", "name_dispatch", [""], timeout=t, desc="class-name dispatch on a symbolic name",
           symbolic="class name (str, <= 4 chars)", stubs=["mypy type classes -> shim"]),
    ]
