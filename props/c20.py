"""C20 - TODO markers flag exactly the declarations that need manual attention."""
from harness.zoo import N_CLS_SHAPES, N_FUN_SHAPES
from vlib.plan import CH

FUNCTIONS = [
    "safeds_stubgen.stubs_generator._stub_string_generator:StubsStringGenerator._create_todo_msg",
    "safeds_stubgen.stubs_generator._stub_string_generator:StubsStringGenerator._create_parameter_string",
    "safeds_stubgen.stubs_generator._stub_string_generator:StubsStringGenerator._create_result_string",
    "safeds_stubgen.stubs_generator._stub_string_generator:StubsStringGenerator._create_type_string",
    "safeds_stubgen.stubs_generator._stub_string_generator:StubsStringGenerator._create_class_string",
    "safeds_stubgen.stubs_generator._stub_string_generator:StubsStringGenerator._create_class_attribute_string",
    "safeds_stubgen.stubs_generator._stub_string_generator:StubsStringGenerator._create_function_string",
    "safeds_stubgen.stubs_generator._stub_string_generator:StubsStringGenerator._create_property_function_string",
    "safeds_stubgen.stubs_generator._stub_string_generator:StubsStringGenerator.__call__",
]
EXPLANATION = (
    "Engine C (CrossHair on the real generator bytecode). (param_table) the per-parameter marker decision table: one or "
    "two parameters over every passing kind x 7 type shapes x 5 default kinds, functions and methods, compared with a "
    "reference model that restates the property's list from the API model alone. (sequence) modules with two or three "
    "neighbouring declarations (function/function, function/class, class/function) over all zoo shapes: the '// TODO' "
    "lines in front of each declaration - module functions, classes, attributes, methods, properties, nested classes - "
    "are exactly the markers of that declaration's own features. (flush_step) one inductive step over the generator "
    "state: from an ARBITRARY pending-marker set (any <= 2 of the 14 marker kinds), rendering one declaration emits "
    "pending + own markers in front of it and leaves the set empty, and __call__ starts from the empty set - which "
    "makes attachment independent of the history of neighbours of any length."
)
ASSUMPTIONS = [
    "marker texts are typed into the oracle (oracle/todo_ref.py) from the observable output",
    "type names with a leading underscore are avoided (the 'internal class as type' marker is outside the statement's list)",
    "a TODO line counts as sitting on a declaration if it occurs between the previous declaration and the declaration "
    "keyword (before or after its documentation comment / annotations)",
    "model invariant: a parameter with a literal default has a type (the analyser infers one from the default)",
]
BOUNDS = {"quick": "param_table: <= 2 parameters; sequence: 2 declarations; flush_step: pending sets of size <= 2",
          "thorough": "param_table: <= 2 parameters; sequence: 3 functions / 2 mixed; flush_step: pending sets of size <= 2"}
MANIFEST = {
    "text": "Bounded symbolic: marker sets are compared with an independent reference for every declaration of every "
            "bounded declaration sequence, and the pending-set mechanism is checked by one inductive step from an "
            "arbitrary state; every CrossHair partition ends in 'Confirmed over all paths'.",
    "note": "Trusted: CrossHair/z3, the recogniser, the reference model oracle/todo_ref.py. Shapes come from the model "
            "zoo; values are concrete (markers do not depend on values).",
    "technique": "CrossHair symbolic execution of the real generator incl. one inductive step from an arbitrary pending-marker state",
}


def plan(tier):
    t = 240 if tier == "quick" else 900
    n = N_FUN_SHAPES
    seq = [f"0:{l},1:{a}" for l in range(3) for a in range(n if l < 2 else N_CLS_SHAPES)]
    return [
        CH("param_table", "harness.c20", "param_table", [f"0:{m},1:{k},2:{a}" for m in range(2) for k in range(2) for a in range(5)],
           timeout=t, desc="per-parameter marker decision table", symbolic="shape selectors"),
        CH("sequence", "harness.c20", "sequence", seq, timeout=t, desc="markers sit on their own declaration",
           symbolic="shape selectors"),
        CH("flush_step", "harness.c20", "flush_step", [f"0:{k},1:{s}" for k in range(4) for s in range(n if k == 0 else N_CLS_SHAPES)], timeout=t,
           desc="inductive step over the pending-marker state", symbolic="shape selectors + arbitrary pending set"),
    ]
