"""C15 - the test-run flag alone controls whether test and docs directories are analysed."""
from vlib.plan import CH, K

FUNCTIONS = [
    "safeds_stubgen.api_analyzer._get_api:get_api",
    "safeds_stubgen.api_analyzer.cli._cli:_get_args",
    "safeds_stubgen.api_analyzer.cli._cli:cli",
    "safeds_stubgen.api_analyzer.cli._cli:_run_stub_generator",
]
EXPLANATION = (
    "Engine K: the filter condition is extracted from get_api's current AST (the first 'if' of the 'for file_path in "
    "root.glob(...)' loop) and evaluated with file_path.parts = a tuple of symbolic strings and is_test_run a symbolic "
    "bool: z3 decides 'skipped <=> flag off and some path part EQUALS test, tests or docs' for every path of 4-5 parts "
    "over an alphabet that spells the three names and their look-alikes (testing, test_x, docs_, mytests-like prefixes), "
    "'flag on => nothing skipped', and 'last part == __init__.py <=> package entry' (second 'if'). A syntactic check on "
    "the loop body (it writes nothing but the two result lists and a log message) justifies deciding one file at a "
    "time. Engine C: every combination of CLI options is parsed by the real argparse set-up (cli/_get_args) and the "
    "-tr flag arrives unchanged at get_api's is_test_run (collaborators stubbed by recorders)."
)
ASSUMPTIONS = [
    "path parts are what pathlib yields for the files root.glob finds (glob/pathlib themselves are outside the claim)",
    "the clause 'for files outside such directories the flag makes no difference to what is generated for them' is "
    "covered only as far as selection goes: the content relation is a two-run relation through mypy (not applicable)",
    "the selection of mypy ASTs in _get_mypy_asts is checked by a CrossHair harness over a pool of 8 paths (incl. a "
    "module named x__init__.py, a tests directory and a foreign package that mypy followed imports into)",
]
BOUNDS = {"quick": "4 path parts of 1..6 characters", "thorough": "5 path parts of 1..7 characters"}
MANIFEST = {
    "text": "Bounded symbolic: the path filter, taken from the real AST at check time, is decided by z3 for every path "
            "within the bound; flag wiring by CrossHair over all option combinations.",
    "note": "Trusted: z3/CrossHair, the AST->SMT translator (validated per run on 150 samples incl. look-alike names). "
            "glob, pathlib and mypy are outside the claim.",
    "technique": "AST->SMT encoding of the filter expression decided by z3 + CrossHair execution of the CLI wiring",
}


def plan(tier):
    t = 300 if tier == "quick" else 900
    return [
        K("k_filter", "kjobs.c15", "directory_filter", "test/docs directory filter"),
        CH("ast_selection", "harness.c15", "ast_selection", [f"0:{a},1:{b}" for a in range(2) for b in range(2)], timeout=t,
           desc="a mypy AST is analysed iff its file was collected; package inits first", stubs=["mypy build result -> namespace objects"]),
        CH("wiring", "harness.cli", "wiring", [f"0:{s}" for s in range(7)], timeout=t, desc="-tr reaches get_api unchanged",
           stubs=["_run_stub_generator / get_api / generator / file creation -> recorders"], symbolic="option selectors"),
    ]
