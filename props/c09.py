"""C09 - naming conversion renames consistently and keeps Python names recoverable."""
from harness.zoo import N_FUN_SHAPES
from vlib.plan import CH, K

FUNCTIONS = [
    "safeds_stubgen.stubs_generator._helper:_convert_name_to_convention",
    "safeds_stubgen.stubs_generator._stub_string_generator:StubsStringGenerator._create_class_string",
    "safeds_stubgen.stubs_generator._stub_string_generator:StubsStringGenerator._create_class_attribute_string",
    "safeds_stubgen.stubs_generator._stub_string_generator:StubsStringGenerator._create_function_string",
    "safeds_stubgen.stubs_generator._stub_string_generator:StubsStringGenerator._create_property_function_string",
    "safeds_stubgen.stubs_generator._stub_string_generator:StubsStringGenerator._create_parameter_string",
    "safeds_stubgen.stubs_generator._stub_string_generator:StubsStringGenerator._create_enum_string",
    "safeds_stubgen.stubs_generator._stub_string_generator:StubsStringGenerator._create_module_string",
    "safeds_stubgen.stubs_generator._stub_string_generator:StubsStringGenerator.__init__",
    "safeds_stubgen.stubs_generator._generate_stubs:_create_outside_package_class",
]
EXPLANATION = (
    "Engine K on the real AST of _convert_name_to_convention: with conversion off the result equals the input for "
    "every ASCII string; with it on, for every ASCII identifier within the bound (outside the two degenerate regions): "
    "no underscore survives, only letter case changes, the first character is upper-cased exactly for class names, and "
    "result == input exactly when the name has no underscore and (for classes) does not start lower-case - the fact "
    "'annotation exactly when the name differs' rests on; dotted package paths: conversion of the whole path equals "
    "per-segment conversion. Engine C: (sites) tagging stubs show that every identifier position is converted with "
    "the right kind; (annotations) with the kernel stubbed to 'always differs' / 'never differs', @PythonName and "
    "@PythonModule are present exactly in the first mode and carry the original; (relational) with the real kernels, "
    "the outputs under both settings have the same files and identical declaration trees keyed by recovered Python "
    "names, differing only in identifiers and annotations."
)
ASSUMPTIONS = [
    "ASCII identifiers up to the stated length; the name '_' is kept as is by design and excluded",
    "API models of the zoo (harness/zoo.py) with plain and snake_case identifiers",
    "the relational comparison treats two identifiers as the same if they agree after removing underscores and case "
    "(type references are emitted unconverted - known finding - so reference/declaration consistency is C11's subject)",
    "result names and type parameters carry no @PythonName annotation (the statement's six annotation sites exclude them)",
]
BOUNDS = {"quick": {"K": "identifiers <= 7 (off: strings <= 10; dotted: 2 segments <= 4)", "C": "zoo, shapes varied one at a time"},
          "thorough": {"K": "identifiers <= 9 (off: strings <= 12; dotted: 2 segments <= 5)", "C": "zoo, full product"}}
MANIFEST = {
    "text": "Bounded symbolic: kernel algebra decided by z3 for every identifier within the bound; site coverage, "
            "annotation-iff-differs and the on/off relation decided by CrossHair partitions over the model zoo.",
    "note": "Trusted: z3/CrossHair, the AST->SMT translator (validated each run against the real function incl. the "
            "repository's 13 test cases), the recogniser. Known findings (unconverted sites, whole-path conversion, "
            "degenerate names) are listed in known_findings.json.",
    "technique": "AST->SMT bounded-string encoding decided by z3 + CrossHair symbolic execution with tagging/identity stubs",
}


def plan(tier):
    t = 240 if tier == "quick" else 900
    if tier == "quick":
        sp = [f"0:{r}" for r in range(3)]
        ap = [f"0:{m},1:{r}" for m in range(2) for r in range(3)]
    else:
        sp = [f"0:{r},1:{f}" for r in range(3) for f in range(N_FUN_SHAPES + 1)]
        ap = [f"0:{m},1:{r},2:{f}" for m in range(2) for r in range(3) for f in range(N_FUN_SHAPES + 1)]
    return [
        K("k_off", "kjobs.c09", "conversion_off", "conversion off is the identity"),
        K("k_on", "kjobs.c09", "conversion_on", "algebra of the conversion", timeout=3000),
        K("k_dotted", "kjobs.c09", "dotted_paths", "whole-path conversion vs per-segment conversion", timeout=1800),
        CH("sites", "harness.c09", "sites", sp, timeout=t, desc="conversion applied at every site with the right kind",
           stubs=["tagging stubs for both kernels", "in-memory FS"], symbolic="shape selectors"),
        CH("annotations", "harness.c09", "annotations", ap, timeout=t, desc="@PythonName/@PythonModule iff the name differs",
           stubs=["conversion kernel -> identity / tagging stub", "in-memory FS"], symbolic="shape selectors + stub mode"),
        CH("relational_inherited", "harness.c09", "relational_inherited", [f"0:{k}" for k in range(5)], timeout=t,
           desc="members inlined from a private ancestor: same recovered names under both settings (snake_case / camelCase look-alikes)"),
        CH("relational", "harness.c09", "relational", ap, timeout=t, desc="outputs under both settings agree up to identifiers",
           stubs=["in-memory FS"], symbolic="shape selectors + name style"),
    ]
