"""C01 - every analysable package is processed to completion under every option set."""
from vlib.plan import CH, K

FUNCTIONS = [
    "safeds_stubgen.api_analyzer._get_api:_get_aliases",
    "safeds_stubgen.api_analyzer._ast_walker:ASTWalker.walk",
    "safeds_stubgen.api_analyzer._ast_visitor:MyPyAstVisitor.mypy_type_to_abstract_type",
    "safeds_stubgen.api_analyzer._ast_visitor:MyPyAstVisitor._parse_parameter_data",
    "safeds_stubgen.api_analyzer._ast_visitor:MyPyAstVisitor._get_parameter_type_and_default_value",
    "safeds_stubgen.api_analyzer._ast_visitor:MyPyAstVisitor._infer_type_from_return_stmts",
    "safeds_stubgen.api_analyzer._mypy_helpers:mypy_expression_to_sds_type",
    "safeds_stubgen.api_analyzer._mypy_helpers:find_return_stmts_recursive",
    "safeds_stubgen.stubs_generator._generate_stubs:_create_outside_package_class",
    "safeds_stubgen.stubs_generator._stub_string_generator:StubsStringGenerator._get_class_in_package",
    "safeds_stubgen.stubs_generator._stub_string_generator:StubsStringGenerator._add_to_imports",
    "safeds_stubgen.api_analyzer.cli._cli:_run_stub_generator",
    "safeds_stubgen.docstring_parsing._docstring_parser:DocstringParser._griffe_annotation_to_api_type",
]
EXPLANATION = (
    "What is decided is the part of the statement that is the repository's own responsibility: no exception escapes "
    "repository code, and every repository loop terminates, for every input of the modelled domain (any exception "
    "raised under CrossHair is a counterexample; path completion witnesses termination). Engine C on the mypy shim: "
    "(aliases) _get_aliases over result-type tables whose keys are NameExpr / MemberExpr / TypeVarExpr / other and "
    "whose values are Instance, function and class callables, Any, None, union, type variable, with Var / TypeAlias "
    "nodes, package and module names SYMBOLIC strings over {a,b} so that z3 decides 'package_name in fullname'; "
    "(walker) the real walker+visitor over every module tree of G_ast; (defaults / returns) parameter defaults and "
    "returned values over every expression kind to depth 2 (literals, names, calls, unary with 4 operators, tuples, "
    "lists, binary operators, conditional expressions); (shadowing) package classes named like the built-in "
    "containers; (types) every annotation term of C05's grammar through mypy_type_to_abstract_type. Generator side: "
    "(generate) references to classes of other libraries, without module part, private, deeply nested, as parameter "
    "type and as superclass; (zoo) the whole generator and file creation over the model zoo. (cli) every option "
    "combination through the real argparse set-up; the API file is written before stub generation starts. Engine K: "
    "_add_to_imports composed with the index arithmetic of _create_outside_package_class for every referenced name."
    ' (docstring_types) DocstringParser._griffe_annotation_to_api_type on a grammar of docstring type texts (members joined by |, or, comma; names, constants, subscripts, tuples, optional; default suffix; list[...] / (...) | None wrapping; three styles): no exception, an API type or None, and an answer within the time budget (non-termination is a counterexample).'
)
ASSUMPTIONS = [
    "mypy.build, griffe's loaders/parsers, pathlib/glob and argparse internals are outside the claim (compiled / "
    "third-party / OS): totality and termination of THOSE are not decided here",
    "the mypy AST is modelled by the validated shim; AST shapes outside G_ast and the expression/type grammars (async "
    "def, PEP 695 generics, dataclass transforms, star-expressions, walrus, decorators other than property/static/class/"
    "overload/plain) are outside the claim",
    "cyclic class hierarchies cannot be written in Python and are not generated (the recursive inlining of private "
    "superclasses recurses along superclass lists)",
    "MemoryError, recursion limits and file-system errors are outside the claim",
]
BOUNDS = {"quick": "as the sub-harnesses' quick bounds; names in the alias table <= 2 chars over {a,b}",
          "thorough": "alias tables with 2 entries; deeper module trees"}
MANIFEST = {
    "text": "Bounded symbolic, partial: exception-freedom and termination of every repository stage over the modelled "
            "input domain, decided by CrossHair partitions (any escaping exception is a counterexample, replayed "
            "natively) plus one z3 query on the placeholder-path arithmetic. mypy/griffe/OS are excluded.",
    "note": "Trusted: CrossHair/z3; the mypy shim validated against the real mypy on every run. Non-termination is "
            "observed with a time budget (10 s for calls that take milliseconds). Known findings: private superclass of "
            "another library (LookupError), a package class named dict/Mapping (IndexError). Nine crash defects were "
            "repaired (known_findings.json: fixed).",
    "technique": "CrossHair symbolic execution of every repository stage on a validated mypy shim / model zoo with exception-freedom as the assertion",
}


def plan(tier):
    t = 400 if tier == "quick" else 900
    wparts = ["0:0,1:0", "0:1,1:0"] + [f"0:{d},1:{n},2:{k}" for d in range(2) for n in (1, 2) for k in range(7)]
    tparts = [f"0:0,1:{k}" for k in range(14)] + [f"0:1,1:{o}" for o in range(9)]
    aparts = [f"0:{k}" for k in range(4)] if tier == "quick" else \
        [f"0:0,1:{k}" for k in range(4)] + [f"0:1,1:{k},2:{v}" for k in range(4) for v in range(7)]  # two table entries: split on the first value kind
    return [
        K("conformance", "harness.walk", "conformance_job", "shim builders vs real mypy", timeout=1200),
        K("attr_conformance", "harness.c01", "attribute_conformance_job", "attribute-annotation builders vs real mypy", timeout=600),
        K("k_placeholder_paths", "kjobs.c01", "placeholder_paths", "_add_to_imports -> _create_outside_package_class: no recorded name makes the path arithmetic raise"),
        CH("aliases", "harness.c01", "aliases", aparts, timeout=t, desc="_get_aliases never raises",
           symbolic="package and module names (str over {a,b}, <= 2 chars)", stubs=["mypy node/type classes -> shim"],
           allow_empty=tier == "thorough"),
        CH("walker", "harness.walk", "no_exception", wparts, timeout=t, desc="walker + visitor never raise", stubs=["mypy -> shim"]),
        CH("defaults", "harness.c01", "defaults", [f"0:{a},1:{k}" for a in range(2) for k in range(12)], timeout=t,
           desc="default-value expressions never raise", stubs=["mypy -> shim"]),
        CH("returns", "harness.c01", "returns", [f"0:{k}" for k in range(12)], timeout=t, desc="returned expressions never raise",
           stubs=["mypy -> shim"]),
        CH("attribute_annotations", "harness.c01", "attribute_annotations", [f"0:{k}" for k in range(8)], timeout=t,
           desc="Final (0, 1, 2 arguments), list/set with several arguments, bare list on class and instance attributes", stubs=["mypy -> shim"]),
        CH("shadowing", "harness.c01", "shadowing_class_names", [""], timeout=t, desc="classes named like built-in containers"),
        CH("types", "harness.c05", "analyser", tparts, timeout=t, desc="type translation never raises", stubs=["mypy -> shim"]),
        CH("generate", "harness.c01", "generate_total", [f"0:{c}" for c in range(2)], timeout=t, desc="generation never raises",
           stubs=["in-memory FS"]),
        CH("zoo", "harness.c02", "grammar", [f"0:0,1:{s},2:{r}" for s in range(2) for r in range(3)], timeout=t,
           desc="generator + file creation over the model zoo", stubs=["in-memory FS"]),
        CH("reexport_choice", "harness.c08", "shortest_reexport", [f"0:{a},1:{b}" for a in range(2) for b in range(2)], timeout=t,
           desc="shortest-re-export selection never raises (name / alias / star / alias+star imports in 2-3 packages)"),
        CH("cli", "harness.c10", "api_file_name", [""], timeout=t, desc="API file written before generation; stage order"),
        CH("docstring_types", "harness.c01doc", "docstring_types",
           [f"0:{st},1:{n},2:{j}" + sfx for st in range(3) for n in range(4) for j in range(3)
            for sfx in ([f",3:{x}" for x in range(3)] if n == 1 and j == 0 else
                        [f",3:0,4:{w},5:{a}" for w in range(3) for a in range(14)] if tier == "thorough" and n == 2 else [""])
            if not (n == 0 and j) and (tier == "thorough" or ((st == 0 or n < 2) and not (n == 3 and j == 2)))], timeout=t,
           desc="docstring type texts (unions / or / comma lists of names, constants, subscripts, tuples, 'optional') are "
                "translated without exception and within the time budget",
           stubs=["griffe Docstring of an empty function as the name-resolution scope", "griffe.parse_annotation runs natively (outside the tracer)"],
           symbolic="shape selectors of the type-text grammar", allow_empty=tier == "thorough"),
    ]
