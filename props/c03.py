"""C03 - every public declaration appears in the stubs exactly once."""
from vlib.plan import CH, K

FUNCTIONS = [
    "safeds_stubgen.stubs_generator._stub_string_generator:StubsStringGenerator._create_module_string",
    "safeds_stubgen.stubs_generator._stub_string_generator:StubsStringGenerator._create_class_string",
    "safeds_stubgen.stubs_generator._stub_string_generator:StubsStringGenerator._create_class_method_string",
    "safeds_stubgen.stubs_generator._stub_string_generator:StubsStringGenerator._create_class_attribute_string",
    "safeds_stubgen.stubs_generator._stub_string_generator:StubsStringGenerator._has_node_shorter_reexport",
    "safeds_stubgen.stubs_generator._stub_string_generator:StubsStringGenerator.create_reexport_module_strings",
    "safeds_stubgen.stubs_generator._generate_stubs:generate_stub_data",
    "safeds_stubgen.stubs_generator._generate_stubs:create_stub_files",
]
EXPLANATION = (
    "Engine C (CrossHair on the real generator, generator side of the property): API models with a module-level "
    "function, a class (optionally an exception class) with attribute, method/static method/property, constructor and "
    "nested class with a method, and a module-level enum, every publicity flag symbolic, module at depth 1 or 2, "
    "re-export by the root package by name or with alias. All output files are parsed by the independent recogniser; "
    "the multiset of (Python module, owner path, Python name, kind) over all files must contain every declaration "
    "whose publicity chain is true exactly once - under its own module or under the re-exporting package - and nothing "
    "unexpected. Analyser side (registered_once): the real ASTWalker + MyPyAstVisitor on every module tree of G_ast - "
    "each function, class, nested class, method, property (read-only and read/write), overload, class attribute "
    "(annotated, inferred, tuple target), constructor-assigned instance attribute, enum and enum member the source "
    "contains is registered exactly once with its owner; repeated assignments register no second attribute."
    ' G_ast includes functions inside module-level if blocks, overloaded static methods with decorated implementation and constructors with item / nested / starred / local / foreign-object assignment targets (only self.<name> targets are attributes).'
)
ASSUMPTIONS = [
    "analyser side: the real walker+visitor on the validated mypy shim over the module-tree grammar G_ast (harness/gast.py)",
    "a declaration re-exported under an alias counts as present under the alias in the re-exporting package",
    "members of a class that is itself missing are not reported separately",
]
BOUNDS = {"quick": "attribute and method flag combinations from 4 presets each; other flags free",
          "thorough": "all flag combinations (27648 models x 2 naming settings)"}
MANIFEST = {
    "text": "Bounded symbolic (generator side): for every flag combination within the bound the emitted declaration "
            "multiset equals the model's public declarations; CrossHair partitions end in 'Confirmed over all paths'.",
    "note": "Trusted: CrossHair/z3, the recogniser. Known findings: exception classes and TypeVar-typed "
            "attributes are omitted.",
    "technique": "CrossHair symbolic execution of the real generator, declaration-multiset oracle over recognised output",
}


def plan(tier):
    t = 300 if tier == "quick" else 900
    parts = [f"0:{c},1:{d},2:{r},3:{pf},4:{pc}" for c in range(2) for d in range(2) for r in range(3) for pf in range(2) for pc in range(2)
             if tier == "thorough" or not (d == 1 and r == 0)]
    wparts = ["0:0,1:0", "0:1,1:0"] + [f"0:{d},1:{n},2:{k}" for d in range(2) for n in (1, 2) for k in range(7)]
    return [
        CH("exactly_once", "harness.c03", "exactly_once", parts, timeout=t, desc="declaration multiset = public declarations",
           bounds=BOUNDS[tier], stubs=["in-memory FS"], symbolic="publicity/shape flags"),
        K("conformance", "harness.walk", "conformance_job", "shim builders vs real mypy", timeout=1200),
        CH("registered_once", "harness.walk", "registered_once", wparts, timeout=400 if tier == "quick" else 900,
           desc="analyser side: every declaration of the source registered exactly once with its owner",
           stubs=["mypy node classes -> validated shim"], symbolic="module-tree selectors"),
    ]
