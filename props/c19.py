"""C19 - API type values obey round-trip, equality and hashing laws."""
from vlib.plan import CH, K

FUNCTIONS = [
    "safeds_stubgen.api_analyzer._types:AbstractType.from_dict",
    "safeds_stubgen.api_analyzer._types:UnionType.from_dict",
    "safeds_stubgen.api_analyzer._types:BoundaryType.__eq__",
    "safeds_stubgen.api_analyzer._types:TypeVarType.from_dict",
    "safeds_stubgen.api_analyzer._types:EnumType.from_dict",
    "safeds_stubgen.api_analyzer._types:LiteralType.to_dict",
    "safeds_stubgen.api_analyzer._types:NamedSequenceType.__eq__",
    "safeds_stubgen.api_analyzer._types:CallableType.__hash__",
]
EXPLANATION = (
    "Engine C (CrossHair on the real bytecode of _types.py): every type term over the 14 constructors up to the stated "
    "depth/arity, leaf data from small pools selected by symbolic integers; per term: from_dict(to_dict(t)) == t, "
    "to_dict idempotent through the round trip, reflexivity, hash(t) == hash(round-tripped t) without raising, and "
    "for order-insensitive constructors equality+hash under reversal; per pair of terms: symmetry of ==, "
    "a == b => hash(a) == hash(b), also with one side round-tripped. 'Confirmed over all paths' per partition "
    "(partition = outermost constructor) is exhaustive within the bound. Engine K: BoundaryType.__eq__ against the "
    "dataclass-generated hash over symbolic field values."
    ' (nested) the per-term laws again for every constructor directly inside every constructor (depth 2, deep child arity <= 1, leaf pool 3).'
)
ASSUMPTIONS = [
    "leaf data are drawn from pools (names a/b, literals 1/True/'a'/2.5, three minima, two maxima): hashing realises "
    "symbolic values under CrossHair, so this harness enumerates pool indices; values beyond the pools are outside it",
    "terms deeper than the stated depth or wider than the stated arity are outside the claim",
]
BOUNDS = {
    "quick": {"single": "depth 1, arity <= 2, root leaves from the full pools, children from 8 inner leaves",
              "pair": "both terms depth <= 1, arity <= 1, children from 3 inner leaves"},
    "thorough": {"single": "depth 2 (one deep child per node), root arity <= 2, inner arity <= 1",
                 "pair": "both terms depth <= 1, arity <= 1"},
}


def plan(tier):
    t = 120 if tier == "quick" else 900
    nary = (2, 5, 7, 10, 11)
    parts = [f"0:{k}" for k in range(14) if k not in nary and k != 12]
    parts += [f"0:{k},1:{a}" for k in nary for a in range(3)]
    parts += ["0:12,1:0", "0:12,1:1"] + [f"0:12,1:2,2:{i}" for i in range(8)]
    if tier == "thorough":
        parts = [f"0:{k}" for k in range(14) if k not in nary and k != 12]
        parts += [f"0:{k},1:{a}" for k in (*nary, 12) for a in range(2)] + [f"0:{k},1:2,2:{j}" for k in (*nary, 12) for j in range(14)]
    # same-constructor pairs (where equality is non-trivial) + every ordered pair of distinct constructors
    pair_parts = [f"0:{a},12:{a}" for a in range(14)]
    return [
        CH("single", "harness.c19", "single", parts, timeout=t, desc="per-term laws", bounds=BOUNDS[tier]["single"],
           symbolic="selectors only (pool indices)"),
        CH("pair", "harness.c19", "pair", pair_parts, timeout=t, desc="pair laws", bounds=BOUNDS[tier]["pair"],
           symbolic="selectors only (pool indices)"),
        K("k_boundary", "kjobs.c19", "boundary_eq_hash", "BoundaryType: == implies equal hash keys, symmetric, reflexive (symbolic fields)"),
        CH("nested", "harness.c19", "nested", [f"0:{k},1:{a}" for k in (2, 5, 7, 10, 11, 12) for a in (1, 2) if not (a == 2 and k in (2, 12))]
           + [f"0:{k},1:2,2:{j}" for k in (2, 12) for j in range(14)] + [f"0:{k}" for k in (6, 9, 13)], timeout=t,
           desc="per-term laws for every constructor directly inside every constructor", bounds="depth 2, deep child arity <= 1, leaf pool 3",
           symbolic="selectors only (pool indices)"),
        CH("cross", "harness.c19", "cross", [f"0:{a}" for a in range(14)], timeout=t,
           desc="symmetry/hash over every ordered pair of distinct constructors (minimal terms)", bounds="14 x 14"),
    ]

MANIFEST = {
    "text": "Bounded symbolic: every API type term over all 14 constructors up to depth 1 (quick) / 2 (thorough), arity "
            "<= 2, and every same-constructor pair plus every ordered pair of distinct constructors, is pushed through "
            "the real to_dict/from_dict/__eq__/__hash__ under CrossHair; each partition ends in 'Confirmed over all "
            "paths' or a natively replayed counterexample. BoundaryType equality vs hashing is additionally decided "
            "over symbolic field values by Engine K.",
    "note": "Trusted: CrossHair's path exploration and z3; leaf data come from small pools (hashing realises symbolic "
            "values), so values outside the pools and terms beyond the depth/arity bound are outside the claim.",
    "technique": "symbolic execution of the real bytecode (CrossHair + z3), exhaustive per partition within stated bounds",
}
