"""C10 - stub files are laid out by module path inside the output directory."""
from vlib.plan import CH, K

FUNCTIONS = [
    "safeds_stubgen.stubs_generator._generate_stubs:generate_stub_data",
    "safeds_stubgen.stubs_generator._generate_stubs:create_stub_files",
    "safeds_stubgen.stubs_generator._generate_stubs:_create_outside_package_class",
    "safeds_stubgen.stubs_generator._stub_string_generator:StubsStringGenerator.create_reexport_module_strings",
    "safeds_stubgen.stubs_generator._helper:_get_shortest_public_reexport",
    "safeds_stubgen.api_analyzer.cli._cli:_run_stub_generator",
]
EXPLANATION = (
    "Engine K: the base-name expression in create_stub_files (located by AST pattern) strips exactly the leading "
    "underscores for every identifier; the path arithmetic at the head of _create_outside_package_class yields, for "
    "every dotted qualified name of 2-3 symbolic segments, directory = module segments, file = last module segment, "
    "package line = module segments, without raising. Engine C: the real generate_stub_data + create_stub_files run on "
    "an in-memory file system over API models (module at depth 1-3, private module/package names, re-export by parent "
    "or root package with/without alias, second module, 0-2 foreign classes, both naming settings, absolute and "
    "relative output paths): every file lies below the output directory, its relative directory spells the Python "
    "module path announced in the file (@PythonModule, else package) segment by segment, its base name is the module or "
    "the re-exported declaration without leading underscores, and each path is opened for writing exactly once "
    "(appends only afterwards). _run_stub_generator (collaborators stubbed) writes '<source directory name>__api.json' "
    "into the output directory before generation starts."
)
ASSUMPTIONS = [
    "pathlib I/O replaced by an in-memory file system (PurePosixPath algebra is the real one)",
    "a leading '//' produced by joining the parts of an absolute path is treated as '/' (Linux semantics)",
    "source-directory names come from a pool of 5 (plain, underscore, dotted); model grammar as listed",
]
BOUNDS = {"quick": "K: identifiers <= 8 / segments <= 3 chars; C: 960 models", "thorough": "K: identifiers <= 10 / segments <= 4 chars; C: 960 models"}
MANIFEST = {
    "text": "Bounded symbolic: name/path arithmetic decided by z3 for all identifiers within the bound; file layout "
            "decided by CrossHair over the bounded model grammar on an in-memory file system.",
    "note": "Trusted: z3/CrossHair, recogniser, the in-memory file system standing in for pathlib I/O.",
    "technique": "AST->SMT encoding of the path arithmetic (z3) + CrossHair symbolic execution of file generation on a stubbed file system",
}


def plan(tier):
    t = 300 if tier == "quick" else 900
    parts = [f"0:{c},1:{o},2:{m}" for c in range(2) for o in range(4) for m in range(5)]
    return [
        K("k_basename", "kjobs.c10", "file_base_name", "file base name strips leading underscores"),
        K("k_outside", "kjobs.c10", "outside_package_paths", "placeholder stub path arithmetic"),
        CH("layout", "harness.c10", "layout", parts, timeout=t, desc="paths vs announced module path", stubs=["in-memory FS"]),
        CH("placeholders", "harness.c10", "placeholders", [f"0:{c},1:{a},2:{b}" for c in range(2) for a in range(2) for b in range(2)], timeout=t,
           desc="placeholder stubs: each path written once, every referenced foreign class declared where its import points",
           stubs=["in-memory FS"]),
        CH("api_file", "harness.c10", "api_file_name", [""], timeout=t, desc="API file name and stage order",
           stubs=["get_api, StubsStringGenerator, generate_stub_data, create_stub_files -> recorders"]),
    ]
