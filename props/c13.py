"""C13 - docstring text reaches the right element intact, whatever the style."""
from harness.zoo import N_CLS_SHAPES, N_FUN_SHAPES
from vlib.plan import CH, K

FUNCTIONS = [
    "safeds_stubgen.api_analyzer._ast_visitor:MyPyAstVisitor.enter_funcdef",
    "safeds_stubgen.api_analyzer._ast_visitor:MyPyAstVisitor._parse_results",
    "safeds_stubgen.stubs_generator._stub_string_generator:StubsStringGenerator._create_docstring_description_part",
    "safeds_stubgen.stubs_generator._stub_string_generator:StubsStringGenerator._create_sds_docstring",
    "safeds_stubgen.stubs_generator._stub_string_generator:StubsStringGenerator._create_sds_docstring_description",
    "safeds_stubgen.docstring_parsing._docstring_parser:DocstringParser.get_function_documentation",
    "safeds_stubgen.docstring_parsing._docstring_parser:DocstringParser.get_result_documentation",
    "safeds_stubgen.docstring_parsing._docstring_parser:DocstringParser.__init__",
    "safeds_stubgen.docstring_parsing._helpers:get_full_docstring",
]
EXPLANATION = (
    "Engine K: for every description string within the bound the real _create_docstring_description_part yields, line "
    "for line, the lines of the description (outer newlines removed) behind the ' * ' prefix - none lost, none added, "
    "none altered; the two example-line substitutions (located by AST pattern in _create_sds_docstring) replace "
    "nothing but the prompt, for every line within the bound. Engine C: (attachment) zoo models with a distinct text "
    "on every module, class, function, method, property, attribute, parameter, result and example line: each text sits "
    "in the comment in front of its own element (as description / '@param <name>' / '@result <name>' / '//' line) and "
    "occurs nowhere else in any output; (cache_step) ONE INDUCTIVE STEP over the docstring parser's one-entry cache: "
    "the griffe lookup is stubbed by a finite table; from an ARBITRARY cache state satisfying the invariant 'cached "
    "docstring == lookup(cached name)' (nothing cached, or any of the 4 names incl. a constructor), a getter called "
    "with ANY of the names returns that name's documentation and re-establishes the invariant - which covers every "
    "interleaving of functions, classes and constructors; the invariant is checked to hold initially on __init__'s "
    "source. (plaintext_pick) get_full_docstring on shim class/function bodies returns the declaration's docstring."
    ' (result_names) analyser and generator together on functions with return hints of 0-3 elements and 1-3 documented results (named/unnamed, typed/untyped; the docstring parser is a stub returning them): where the stub declares as many results as are documented, the i-th @result line carries the name of the i-th declared result and every description occurs once.'
)
ASSUMPTIONS = [
    "'the same documentation whichever of the NumPy, Google or reST styles the source uses' compares three griffe "
    "parsers on arbitrary text (third-party, regex-driven): not applicable to this technique; the repository's own "
    "mapping of griffe sections is exercised with griffe's docstring objects on concrete texts only",
    "description alphabet {a,b,space,newline,*}; example-line alphabet {>,.,space,a,x,=,[,]}",
    "cache step: _get_griffe_node replaced by a finite table (4 names incl. a constructor; each unknown to griffe, known without docstring, or with docstring)",
]
BOUNDS = {"quick": "descriptions <= 5 chars, example lines <= 7 chars; zoo shapes one at a time; cache: 4 names",
          "thorough": "descriptions <= 6 chars, example lines <= 8 chars; zoo full product"}
MANIFEST = {
    "text": "Bounded symbolic, partial: line-for-line transport decided by z3 for all texts within the bound; "
            "attachment by CrossHair over the zoo; the cache by one inductive step from an arbitrary valid state. The "
            "cross-style equivalence clause is not applicable.",
    "note": "Trusted: z3/CrossHair, translator validation, recogniser, griffe's Docstring objects as carriers of "
            "concrete texts. Not covered: equivalence of the NumPy/Google/reST renderings.",
    "technique": "AST->SMT bounded-string encoding (z3) + CrossHair symbolic execution incl. an inductive step over the cache state",
}


def plan(tier):
    t = 300 if tier == "quick" else 900
    if tier == "quick":
        ap = [f"0:{r}" for r in range(3)]
    else:
        ap = [f"0:{r},1:{f}" for r in range(3) for f in range(N_FUN_SHAPES + 1)]
    return [
        K("k_lines", "kjobs.c13", "description_lines", "description transported line for line", timeout=1800),
        K("k_examples", "kjobs.c13", "example_lines", "example lines: only the prompt is replaced"),
        CH("attachment", "harness.c13", "attachment", ap, timeout=t, desc="every text in its own element's comment, nowhere else",
           stubs=["in-memory FS"], symbolic="shape selectors"),
        CH("cache_step", "harness.c13", "cache_step", [f"0:{a},1:{b}" for a in range(3) for b in range(3)], timeout=t,
           desc="inductive step over the one-entry docstring cache", stubs=["_get_griffe_node -> finite table"],
           symbolic="arbitrary cache pre-state, asked name, getter"),
        CH("plaintext_pick", "harness.c13", "plaintext_pick", [""], timeout=t, desc="plaintext docstring selection", stubs=["mypy -> shim"]),
        CH("result_names", "harness.c13", "result_comment_names", [f"0:{r}" for r in range(4)], timeout=t,
           desc="analyser + generator: the i-th '@result <name>' of the comment names the i-th declared result",
           stubs=["mypy -> shim", "docstring parser -> stub returning the selected result documentation"], symbolic="shape selectors"),
    ]
