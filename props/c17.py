"""C17 - members of private ancestors surface once in public subclasses."""
from vlib.plan import CH

FUNCTIONS = [
    "safeds_stubgen.stubs_generator._stub_string_generator:StubsStringGenerator._create_class_string",
    "safeds_stubgen.stubs_generator._stub_string_generator:StubsStringGenerator._create_internal_class_string",
    "safeds_stubgen.stubs_generator._stub_string_generator:StubsStringGenerator._create_class_method_string",
    "safeds_stubgen.stubs_generator._stub_string_generator:StubsStringGenerator._get_class_in_package",
    "safeds_stubgen.stubs_generator._stub_string_generator:StubsStringGenerator._add_to_imports",
]
EXPLANATION = (
    "Engine C (CrossHair on the real generator): every class hierarchy of a public class 'Top' over 2 (quick) / 3 "
    "(thorough) ancestor candidates - each public or private, ordered superclass lists of length <= 2 over "
    "lower-numbered classes (chains, two private bases, diamonds, private base in another module), each class defining "
    "any subset of two method names (one optionally as property), Top optionally abstract. The stub of Top is parsed "
    "by the independent recogniser and compared with a reference resolution: every public method of the private "
    "ancestors exactly once, own definition first, nearer ancestor first (the rendered definition is identified by its "
    "documentation text), no private name in the 'sub' clause, public superclasses in declaration order and imported "
    "when defined in another module."
)
ASSUMPTIONS = [
    "hierarchies are acyclic by construction (Python cannot express a cyclic hierarchy)",
    "private ancestors are classes of the analysed package (a private superclass from another library raises "
    "LookupError - recorded under C01)",
    "method bodies/signatures are irrelevant to the resolution: every method is (self) -> result_1: Int",
]
BOUNDS = {"quick": "Top + 2 ancestor candidates, 2 method names (Top itself defines none or the first)", "thorough": "the quick space plus Top + 3 ancestor candidates (chains of depth 3, diamonds over three classes) with reduced variation for the deeper classes"}
MANIFEST = {
    "text": "Bounded symbolic: all hierarchies within the bound are explored by CrossHair partitions, each ending in "
            "'Confirmed over all paths'; member lists and sub clauses are compared with an independent reference.",
    "note": "Trusted: CrossHair/z3, the recogniser, the reference resolution in harness/c17.py. Known findings: classes "
            "listing abc.ABC lose their sub clause and inherited members.",
    "technique": "CrossHair symbolic execution of the real generator over all bounded class hierarchies, differential against a reference resolution",
}


def plan(tier):
    t = 400 if tier == "quick" else 900
    parts = [f"0:{p},1:{n},2:{m}" for p in range(2) for n in range(2) for m in range(4)]
    if tier == "thorough":  # first selector: quick space / deep space; deep: K0 private x K0 methods x K0 property/K0 superclass... x K1 private
        parts = [f"0:0,1:{p},2:{n},3:{m}" for p in range(2) for n in range(2) for m in range(4)] + \
                [f"0:1,1:{p},2:{m},3:{x},4:{y}" for p in range(2) for m in range(3) for x in range(2) for y in range(2)]
    return [CH("hierarchy", "harness.c17", "hierarchy", parts, timeout=t, desc="member lists and sub clauses vs reference",
               bounds=BOUNDS[tier], symbolic="shape selectors", stubs=["in-memory FS"], allow_empty=tier == "thorough")]
