"""C08 - output is a deterministic function of package contents and options."""
from vlib.plan import CH

FUNCTIONS = [
    "safeds_stubgen.stubs_generator._helper:_get_shortest_public_reexport",
    "safeds_stubgen.api_analyzer._ast_visitor:MyPyAstVisitor._find_alias",
    "safeds_stubgen.api_analyzer._ast_visitor:MyPyAstVisitor._infer_type_from_return_stmts",
    "safeds_stubgen.api_analyzer._ast_visitor:MyPyAstVisitor._create_inferred_results",
    "safeds_stubgen.api_analyzer._ast_visitor:MyPyAstVisitor._get_reexported_by",
    "safeds_stubgen.stubs_generator._stub_string_generator:StubsStringGenerator._add_to_imports",
    "safeds_stubgen.stubs_generator._generate_stubs:generate_stub_data",
    "safeds_stubgen.stubs_generator._generate_stubs:create_stub_files",
    "safeds_stubgen.api_analyzer._get_api:_get_nearest_init_dirs",
]
EXPLANATION = (
    "Decided: independence from SET ITERATION ORDER (= string-hash seed) and from MODULE PROCESSING ORDER (= file-system "
    "enumeration order), by making the order an explicit variable. vlib/permset.py rebinds the name 'set' in the "
    "repository modules to a set class whose iteration order is a permutation index; each function is run under order "
    "0 and under a symbolic order k and the observable results must be equal (for sets of <= 3 elements all 6 "
    "permutations are reached). (shortest_reexport) 2-3 re-exporting packages at depths 1-3, with/without alias; "
    "(find_alias) alias sets of 2-3 qualified names incl. look-alike module paths, three current modules; "
    "(inferred_types) un-annotated functions with 2-3 distinct returned shapes incl. tuples of equal length, through "
    "_infer_type_from_return_stmts, _create_inferred_results and to_dict; (module_order) whole generation incl. file "
    "creation for 2-3 modules analysed in both orders, with fully qualified and bare references, re-export on/off, both "
    "naming settings: every path and text equal."
    ' (nearest_packages) _get_nearest_init_dirs over every set of up to four package directories (depths 1-3) and every enumeration order of root.glob: the result is the set of the shallowest ones.'
)
ASSUMPTIONS = [
    "working directory, path spelling (relative/absolute/trailing slash) and repeated process runs are Path.resolve, "
    "glob and the OS: not applicable to this technique (the CLI resolves both paths before anything else)",
    "the iteration order of a real set is modelled as an arbitrary permutation of its insertion order",
]
BOUNDS = {"quick": "sets of <= 3 elements, all permutations; 2-3 modules in both orders", "thorough": "same"}
MANIFEST = {
    "text": "Bounded symbolic, partial: f(x) under every permutation of set order / module order equals f(x) under the "
            "identity, for every input of the bounded grammars, decided by CrossHair partitions.",
    "note": "Trusted: CrossHair/z3; PermSet as a model of hash-seed-dependent iteration. Not applicable: cwd, path "
            "spelling, repeated runs. Known findings: two same-module alias candidates; ambiguous bare references. "
            "The choice of the analysed package directory is decided for every enumeration order of up to four package directories.",
    "technique": "CrossHair symbolic execution with the iteration order as a symbolic permutation (relational oracle f(x) == f(pi x))",
}


def plan(tier):
    t = 300 if tier == "quick" else 900
    return [
        CH("shortest_reexport", "harness.c08", "shortest_reexport", [f"0:{a},1:{b}" for a in range(2) for b in range(2)], timeout=t,
           desc="re-export choice independent of set order", stubs=["set -> PermSet in the repository modules"], symbolic="permutation index + shape"),
        CH("find_alias", "harness.c08", "find_alias", [f"0:{a},1:{b}" for a in range(2) for b in range(2)], timeout=t,
           desc="alias resolution independent of set order", stubs=["set -> PermSet", "mypy -> shim"], symbolic="permutation index + shape"),
        CH("inferred_types", "harness.c08", "inferred_types", [f"0:{n},1:{a}" for n in range(2) for a in range(5)], timeout=t,
           desc="inferred results independent of set order", stubs=["set -> PermSet", "mypy -> shim"], symbolic="permutation index + shape"),
        CH("nearest_packages", "harness.c08", "nearest_packages", [f"0:{n}" for n in range(4)], timeout=t,
           desc="choice of the analysed package directory independent of file-system enumeration order",
           stubs=["root.glob -> a list in an arbitrary order"], symbolic="set of package directories + permutation index"),
        CH("module_order", "harness.c08", "module_order", [f"0:{c},1:{r}" for c in range(2) for r in range(3)], timeout=t,
           desc="output independent of module analysis order", stubs=["in-memory FS"], symbolic="shape selectors"),
    ]
