"""C04 - private declarations never leak into stubs."""
from vlib.plan import CH, K

FUNCTIONS = [
    "safeds_stubgen.api_analyzer._ast_visitor:MyPyAstVisitor._check_publicity_in_reexports",
    "safeds_stubgen._helpers:is_internal",
    "safeds_stubgen.api_analyzer._ast_visitor:MyPyAstVisitor._is_public",
    "safeds_stubgen.stubs_generator._stub_string_generator:StubsStringGenerator._create_module_string",
    "safeds_stubgen.stubs_generator._stub_string_generator:StubsStringGenerator._create_class_string",
    "safeds_stubgen.stubs_generator._stub_string_generator:StubsStringGenerator._create_class_method_string",
    "safeds_stubgen.stubs_generator._stub_string_generator:StubsStringGenerator._create_class_attribute_string",
]
EXPLANATION = (
    "Engine K: is_internal(x) <=> x starts with '_' for every ASCII string within the bound; the real AST of "
    "MyPyAstVisitor._is_public (re-export lookup stubbed to 'not re-exported') is decided against the statement's "
    "predicate - public <=> not (leading underscore and not a dunder name) and every enclosing segment public - for a "
    "module-level declaration, a class member and a constructor-assigned attribute, over symbolic names and path "
    "segments. Engine C: over the C03 model grammar, no declaration with a false publicity chain occurs in any output file; "
    "(reexports) the real _is_public + _check_publicity_in_reexports + _add_reexports on a declaration "
    "pkg.sub_a.<m|_m|xm>.<f|_f> with imports of every form (name, alias, private alias, star, module, module alias, "
    "absolute name) written in the package's or the root's __init__, against a one-directional oracle: private and not "
    "re-exported => private; re-exported under a public name => public."
    ' The import forms include relative imports that reach through a sub-package (from .sub_a.m import f [as g], from .sub_a.m import *) written in the root __init__.'
)
ASSUMPTIONS = [
    "K: _check_publicity_in_reexports is stubbed to return None (no re-export); the re-export logic is covered by the "
    "CrossHair harness 'reexports' over name pools with look-alikes (m/_m/xm, f/_f/xf), 1 import (thorough: 2)",
    "K: a class's is_public flag is assumed consistent with its path (no re-export), which is what the same function "
    "establishes for the class one level up (inductive use)",
    "C: generator side; the is_public fields of the API JSON are covered only through the K query on _is_public",
]
BOUNDS = {"quick": "K: identifiers <= 5 per segment, 3 segments; C: as C03 quick", "thorough": "K: identifiers <= 6; C: all flag combinations"}
MANIFEST = {
    "text": "Bounded symbolic: the publicity predicate is decided by z3 over an AST-derived encoding for every name and "
            "path within the bound; absence of private declarations from the output by CrossHair partitions.",
    "note": "Trusted: z3/CrossHair, translator validated against the real method each run. Known findings: '_x__' classified public; enums "
            "emitted without publicity test; re-export matching by name suffix; relative re-exports through a sub-package stay private.",
    "technique": "AST->SMT encoding of the publicity predicate decided by z3 + CrossHair symbolic execution of the generator",
}


def plan(tier):
    t = 300 if tier == "quick" else 900
    parts = [f"0:{c},1:{d},2:{r},3:{pf},4:{pc}" for c in range(2) for d in range(2) for r in range(3) for pf in range(2) for pc in range(2)
             if tier == "thorough" or c == 0]
    return [
        K("k_internal", "kjobs.c04", "internal_predicate", "is_internal"),
        K("k_public", "kjobs.c04", "publicity_decision", "_is_public vs the statement's predicate", timeout=1800),
        CH("no_leak", "harness.c03", "no_leak", parts, timeout=t, desc="no private declaration in any stub",
           stubs=["in-memory FS"], symbolic="publicity/shape flags"),
        CH("reexports", "harness.c04", "reexports", [f"0:{m},1:{n}" + x for m in range(3) for n in range(2) for x in ([f",2:{k}" for k in range(12)] if tier == "thorough" else [""])],
           timeout=t, allow_empty=tier == "thorough",
           desc="publicity through re-exports: private stays private unless re-exported; re-exported under a public name is public",
           stubs=["mypy -> shim"], symbolic="configuration selectors (names from look-alike pools)"),
    ]
