"""C18 - a module's stub depends only on what the module uses."""
from vlib.plan import CH, K

FUNCTIONS = [
    "safeds_stubgen.stubs_generator._stub_string_generator:StubsStringGenerator._add_to_imports",
    "safeds_stubgen.stubs_generator._stub_string_generator:StubsStringGenerator._is_path_connected_to_class",
    "safeds_stubgen.api_analyzer._ast_visitor:MyPyAstVisitor._find_alias",
    "safeds_stubgen.api_analyzer._ast_visitor:MyPyAstVisitor.mypy_type_to_abstract_type",
    "safeds_stubgen.api_analyzer._ast_walker:ASTWalker.walk",
    "safeds_stubgen.api_analyzer._ast_visitor:MyPyAstVisitor.enter_funcdef",
    "safeds_stubgen.api_analyzer._ast_visitor:MyPyAstVisitor.leave_funcdef",
    "safeds_stubgen.stubs_generator._helper:_get_shortest_public_reexport",
]
EXPLANATION = (
    "A relation between two runs of the real code, decided for the shared tables the property's anchors name. "
    "(unrelated_module) generator side: the stub of module pkg.m - which references a class of pkg.n in parameter, "
    "result and superclass position by a fully, partially or un-qualified name - is compared byte for byte with and "
    "without an unrelated module U (sibling, sub-package, look-alike id pkg/m2, other top-level package) holding a "
    "class named Unrelated / X / XFoo / Foo, analysed first or last, under both naming settings. (alias_table) "
    "analyser side: the API type the real mypy_type_to_abstract_type/_find_alias resolve for a name with and without an "
    "additional definition of that name in an unrelated module. (permutation) the real walker+visitor on every module "
    "tree of G_ast and on the same tree with its top-level definitions reversed: every non-module list of the API is "
    "identical and the module's own lists are permutations. (forward_reference) the 'classes of the current module seen "
    "so far' lookup for list[A, B] / set[A, B]. Engine K (shared with C11): the path matcher against segment-suffix "
    "semantics."
    " (typevar_state) real mypy trees of a fixed eight-module corpus walked by ONE visitor in the orders [unrelated, m], [m, unrelated], [u, m, u'] and a same-module swap: the type variables recorded per function equal those of its signature in every arrangement."
)
ASSUMPTIONS = [
    "influence through mypy's own cross-module inference is outside the claim (mypy is not encodable): not applicable",
    "U neither references nor re-exports anything of M and is not an ancestor package of M",
    "names come from pools chosen to contain same-name and suffix coincidences",
]
BOUNDS = {"quick": "384 two-run configurations; ~1100 module trees x 2 orders", "thorough": "module trees with <= 3 top-level definitions"}
MANIFEST = {
    "text": "Bounded symbolic, partial: with/without-U and permuted-order relations decided by CrossHair for every "
            "configuration of the bounded grammars; the matching heuristic by z3 (C11's query).",
    "note": "Trusted: CrossHair/z3, shim (validated), in-memory FS. Not applicable: cross-module effects inside mypy. "
            "Known findings: same-name / suffix decoys for unqualified references, alias shadowing, forward references. "
            "Visitor state between declarations is observed on real mypy trees of a fixed corpus.",
    "technique": "CrossHair symbolic execution, two-run relational oracle (stub(M) with U == stub(M) without U; walk(pi M) == pi walk(M))",
}


def plan(tier):
    t = 400 if tier == "quick" else 900
    wparts = ["0:0,1:0", "0:1,1:0"] + [f"0:{d},1:{n},2:{k}" for d in range(2) for n in (1, 2) for k in range(7)]
    return [
        K("k_path_match", "kjobs.c11", "path_matching", "path/class matching vs segment suffix (shared with C11)"),
        CH("unrelated_module", "harness.c18", "unrelated_module", [f"0:{c},1:{n},2:{q}" for c in range(2) for n in range(2) for q in range(3)],
           timeout=t, desc="stub(M) with U == stub(M) without U", stubs=["in-memory FS"], symbolic="configuration selectors"),
        CH("alias_table", "harness.c18", "alias_table", [""], timeout=t, desc="resolved type with/without an unrelated definition",
           stubs=["mypy -> shim"]),
        CH("permutation", "harness.c18", "permutation", wparts, timeout=t, desc="reordering top-level definitions only permutes",
           stubs=["mypy -> validated shim"], symbolic="module-tree selectors"),
        CH("forward_reference", "harness.c18", "forward_reference", [""], timeout=t, desc="same-module class lookup vs definition order",
           stubs=["mypy -> shim"]),
        CH("typevar_state", "harness.c18", "typevar_state", [f"0:{u}" for u in range(4)], timeout=t,
           desc="a function's type variables do not depend on the module analysed before it (generic class with TypeVar-typed "
                "class attributes) nor on the order of definitions",
           stubs=["real mypy trees of a fixed corpus of 8 modules, converted to shim trees"], symbolic="corpus selectors"),
    ]
