"""C02 - every emitted stub file is syntactically valid Safe-DS."""
from harness.zoo import N_FUN_SHAPES
from vlib.plan import CH, K

FUNCTIONS = [
    "safeds_stubgen.stubs_generator._helper:_replace_if_safeds_keyword",
    "safeds_stubgen.stubs_generator._helper:_convert_name_to_convention",
    "safeds_stubgen.stubs_generator._helper:_create_name_annotation",
    "safeds_stubgen.stubs_generator._stub_string_generator:StubsStringGenerator._create_docstring_description_part",
    "safeds_stubgen.stubs_generator._stub_string_generator:StubsStringGenerator._create_type_string",
    "safeds_stubgen.stubs_generator._stub_string_generator:StubsStringGenerator._create_module_string",
    "safeds_stubgen.stubs_generator._stub_string_generator:StubsStringGenerator._create_class_string",
    "safeds_stubgen.stubs_generator._stub_string_generator:StubsStringGenerator._create_function_string",
    "safeds_stubgen.stubs_generator._stub_string_generator:StubsStringGenerator._create_parameter_string",
    "safeds_stubgen.stubs_generator._stub_string_generator:StubsStringGenerator._create_enum_string",
    "safeds_stubgen.stubs_generator._stub_string_generator:StubsStringGenerator._create_imports_string",
    "safeds_stubgen.stubs_generator._stub_string_generator:StubsStringGenerator.create_reexport_module_strings",
    "safeds_stubgen.stubs_generator._generate_stubs:_create_outside_package_class",
    "safeds_stubgen.api_analyzer._ast_visitor:MyPyAstVisitor._get_parameter_type_and_default_value",
]
EXPLANATION = (
    "Engine K: the real AST of the two naming kernels, of the string-literal wrapping expressions (located by AST "
    "pattern in the visitor and in the type renderer) and of the documentation-comment kernel is translated into one "
    "path-merged z3 term over bounded strings; z3 decides, for EVERY string within the bound, keyword escaping against "
    "an independently typed keyword list, legality of converted identifiers, proper closing of string tokens and of "
    "documentation comments; every counterexample is replayed on the real function; the encoding is validated against "
    "the real functions on the repository's own test inputs and on random samples on every run. Engine C: (sites) the "
    "kernels are replaced by tagging stubs and the independent recogniser checks that every identifier position of "
    "every output file went through escape(convert(name)); (grammar) every output file of every model of the zoo "
    "parses with the independent recogniser (header order, brackets, braces, comments, literals)."
    ' (docstring_defaults) default texts as the docstring parser reports them (Python source text) for a typed optional parameter of a function / constructor: the stub parses and the default is the Safe-DS literal with the same value.'
)
ASSUMPTIONS = [
    "7-bit ASCII only; identifiers up to the stated length; docstring alphabet {a,b,space,*,/,newline,>,.}",
    "the recogniser's grammar (oracle/recogniser.py) is the definition of 'valid stub syntax'; semantic validity of "
    "Safe-DS beyond it is outside the claim; a string token is 'properly closed' if no unescaped quote occurs inside "
    "and the closing quote is not escaped",
    "API models are those of the zoo (harness/zoo.py): 12 function shapes, 12 class shapes, 3 enum shapes, re-export "
    "none/name/alias, docstrings on/off, plain and snake_case names, both naming settings",
    "stubs: pathlib I/O replaced by an in-memory file system; sites harness replaces the two kernels by tagging stubs",
]
BOUNDS = {
    "quick": {"K": "identifiers <= 8 (keyword kernel: 11), strings <= 8, docstrings <= 7",
              "C": "function and class shapes varied one at a time (quick) over 12 partitions"},
    "thorough": {"K": "identifiers <= 10 (keyword kernel: 12), strings <= 12, docstrings <= 10",
                 "C": "full product of the zoo dimensions (12168 models)"},
}
MANIFEST = {
    "text": "Bounded symbolic. The string-valued part of the property (all identifier spellings, default and literal "
            "string values, docstring texts) is decided by z3 over an AST-derived encoding of the real kernels for every "
            "string up to the stated length; the structural part (every emission site applies the kernels; every file "
            "of every zoo model parses) by CrossHair partitions ending in 'Confirmed over all paths'.",
    "note": "Trusted: z3/CrossHair; the AST->SMT translator (validated per run against the real functions, incl. the "
            "repository's own test inputs); the hand-written recogniser as definition of stub syntax; ASCII only; "
            "known findings (unescaped sites, unescaped string contents, '*/' in descriptions, degenerate converted "
            "names, docstring default texts that are no Python literal) are listed in known_findings.json and excluded as "
            "regions/labels.",
    "technique": "AST->SMT bounded-string encoding of the real kernels decided by z3 (cvc5 cross-check) + CrossHair "
                 "symbolic execution of the generator with tagging stubs and an independent recogniser",
}


def plan(tier):
    t = 240 if tier == "quick" else 900
    parts = [f"0:{c},1:{s},2:{r}" for c in range(2) for s in range(2) for r in range(3)]
    sparts = [f"0:{r}" for r in range(3)]
    if tier == "thorough":
        parts = [f"0:{c},1:{s},2:{r},3:{f}" for c in range(2) for s in range(2) for r in range(3) for f in range(N_FUN_SHAPES + 1)]
        sparts = [f"0:{r},1:{f}" for r in range(3) for f in range(N_FUN_SHAPES + 1)]
    return [
        K("k_keyword", "kjobs.c02", "keyword_kernel", "keyword escape kernel vs oracle keyword list"),
        K("k_convert", "kjobs.c02", "convert_legal", "converted names are legal identifiers", timeout=1800),
        K("k_strings", "kjobs.c02", "string_literals", "string tokens are properly closed"),
        K("k_doc", "kjobs.c02", "doc_comment", "documentation comments are not closed early", timeout=1800),
        CH("grammar", "harness.c02", "grammar", parts, timeout=t, desc="every output file parses",
           bounds=BOUNDS[tier]["C"], symbolic="shape selectors", stubs=["pathlib I/O -> in-memory FS"]),
        CH("sites", "harness.c02", "sites", sparts, timeout=t, desc="every identifier position is escape(convert(name))",
           bounds=BOUNDS[tier]["C"], symbolic="shape selectors",
           stubs=["_convert_name_to_convention -> tagging stub", "_replace_if_safeds_keyword -> tagging stub",
                  "pathlib I/O -> in-memory FS"]),
        CH("docstring_defaults", "harness.c02", "docstring_defaults", ["0:0", "0:1"], timeout=t,
           desc="default texts reported by the docstring parser (Python source text) are written as Safe-DS literals",
           bounds="13 default texts x 2 parameter kinds x function/constructor x 2 naming settings", symbolic="shape selectors",
           stubs=["pathlib I/O -> in-memory FS"]),
    ]
