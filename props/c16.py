"""C16 - stub generation neither mutates the API model nor depends on earlier generations."""
from harness.zoo import N_FUN_SHAPES
from vlib.plan import CH

FUNCTIONS = [
    "safeds_stubgen.stubs_generator._stub_string_generator:StubsStringGenerator._create_type_string",
    "safeds_stubgen.stubs_generator._stub_string_generator:StubsStringGenerator._create_parameter_string",
    "safeds_stubgen.stubs_generator._stub_string_generator:StubsStringGenerator._has_node_shorter_reexport",
    "safeds_stubgen.stubs_generator._stub_string_generator:StubsStringGenerator.__call__",
    "safeds_stubgen.stubs_generator._stub_string_generator:StubsStringGenerator.create_reexport_module_strings",
    "safeds_stubgen.stubs_generator._generate_stubs:generate_stub_data",
    "safeds_stubgen.stubs_generator._generate_stubs:create_stub_files",
    "safeds_stubgen.stubs_generator._generate_stubs:_create_outside_package_class",
    "safeds_stubgen.api_analyzer._types:LiteralType.to_dict",
]
EXPLANATION = (
    "Engine C (CrossHair on the real generator) over the model zoo incl. literal unions with and without None, *args of "
    "tuple type, re-export by name and with alias: (repeat) API.to_dict() before generation == after; a second "
    "generation - with a fresh generator and with the same generator object - yields the same file set and texts; "
    "(rerun) a second run into the already populated in-memory output directory leaves the same files and contents; "
    "(inherited_twice) a method of a private ancestor renders identically in two public subclasses, for every "
    "function shape of the zoo."
    ' (reexporters) a class and a function re-exported by every subset (>= 2) of five packages - ancestors and non-ancestors of the defining module, shallower and deeper, by name or alias: api.to_dict() before == after, second generation identical.'
)
ASSUMPTIONS = ["API models of the zoo; pathlib I/O replaced by an in-memory file system that persists between the two runs"]
BOUNDS = {"quick": "zoo shapes varied one at a time", "thorough": "zoo full product"}
MANIFEST = {
    "text": "Bounded symbolic: before/after and first/second-generation relations are decided for every zoo model by "
            "CrossHair partitions ending in 'Confirmed over all paths'.",
    "note": "Trusted: CrossHair/z3; the in-memory file system. Known findings: the model is renamed to a re-export "
            "alias; reusing one generator object for a second generation changes the output.",
    "technique": "CrossHair symbolic execution of the real generator; relational oracle (model before = after, run 1 = run 2)",
}


def plan(tier):
    t = 300 if tier == "quick" else 900
    n = N_FUN_SHAPES + 1
    if tier == "quick":
        rp = [f"0:{c},1:{u},2:{r}" for c in range(2) for u in range(2) for r in range(3)]
        rr = [f"0:{c},1:{r}" for c in range(2) for r in range(3)]
    else:
        rp = [f"0:{c},1:{u},2:{r},3:{f}" for c in range(2) for u in range(2) for r in range(3) for f in range(n)]
        rr = [f"0:{c},1:{r},2:{f}" for c in range(2) for r in range(3) for f in range(n)]
    return [
        CH("repeat", "harness.c16", "repeat", rp, timeout=t, desc="model unchanged; second generation identical", stubs=["in-memory FS"]),
        CH("rerun", "harness.c16", "rerun_into_populated_dir", rr, timeout=t, desc="second run into populated directory", stubs=["in-memory FS"]),
        CH("rerun_foreign", "harness.c16", "rerun_foreign", [f"0:{c},1:{a}" for c in range(2) for a in range(2)], timeout=t,
           desc="placeholder stubs of 1-3 foreign classes from up to 4 modules (two share their last name component): second run == first run",
           stubs=["in-memory FS"]),
        CH("reexporters", "harness.c16", "reexporters", [f"0:{c},1:{h}" for c in range(2) for h in range(2)], timeout=t,
           desc="class + function re-exported by any subset (>= 2) of five packages (ancestors / non-ancestors, by name / alias): model unchanged, second generation identical",
           stubs=["in-memory FS"]),
        CH("inherited_twice", "harness.c16", "inherited_twice", [f"0:{s}" for s in range(N_FUN_SHAPES)], timeout=t,
           desc="same inherited method rendered identically in two subclasses"),
    ]
