"""C11 - every referenced class is declared or imported, and every import resolves."""
from vlib.plan import CH, K

FUNCTIONS = [
    "safeds_stubgen.stubs_generator._stub_string_generator:StubsStringGenerator._add_to_imports",
    "safeds_stubgen.stubs_generator._stub_string_generator:StubsStringGenerator._is_path_connected_to_class",
    "safeds_stubgen.stubs_generator._stub_string_generator:StubsStringGenerator._create_imports_string",
    "safeds_stubgen.stubs_generator._stub_string_generator:StubsStringGenerator._create_type_string",
    "safeds_stubgen.stubs_generator._stub_string_generator:StubsStringGenerator._create_class_string",
    "safeds_stubgen.stubs_generator._helper:_get_shortest_public_reexport",
    "safeds_stubgen.stubs_generator._generate_stubs:_create_outside_package_class",
]
EXPLANATION = (
    "Engine K: the real AST of _is_path_connected_to_class (empty re-export map) is decided against 'the class path "
    "ends with the reference at a segment boundary' for all slash-separated paths within the bound; the closure "
    "_module_name_check inside _get_shortest_public_reexport (extracted from the AST, free variables bound) is decided "
    "against 'the name is one of the key's dotted segments' for all keys within the bound. Engine C: API "
    "models in which module pkg.m references a class in parameter (List<..>, Map<.., ..>), result, attribute and "
    "superclass position; the class lives in the same module, a sibling, a module whose id extends pkg.m (pkg.m2), a "
    "sub-package or another library; names X / Foo / my_cls; an unrelated decoy class (XFoo, a second X, Foo in a "
    "sub-package) analysed before or after; reference fully, partially or not qualified; re-export by the root package "
    "by name or alias; both naming settings. All outputs (module stubs, re-export stubs, placeholder stubs) are parsed "
    "by the independent recogniser: every type/superclass name is built-in, declared in the file, a type parameter or "
    "imported there, and every import names a (package, declaration) pair declared by some output file."
    ' Added dimensions: a reference to a bare name that is no class at all; re-export by a package that is no ancestor of the defining module (fewer segments, more characters); the class used only with type arguments of its own (X[int]); built-in classes without Safe-DS counterpart.'
)
ASSUMPTIONS = [
    "names come from pools chosen to contain prefix/suffix coincidences (symbolic strings through the generator are "
    "out of reach for CrossHair: ~7 s per path); the string-level statement is the K query",
    "closure is syntactic: a name that resolves to a *wrong* same-named class is C18's subject",
]
BOUNDS = {"quick": "K: paths <= 6 chars; C: 8064 configurations", "thorough": "K: paths <= 7 chars; C: 8064 configurations"}
MANIFEST = {
    "text": "Bounded symbolic: the matching heuristic is decided by z3 for all paths within the bound; reference/import "
            "closure over all outputs is decided by CrossHair for every configuration of the bounded model grammar.",
    "note": "Trusted: z3/CrossHair, recogniser. Known findings: alias re-exports, naming conversion, module-id prefix, "
            "character-level suffix matching, bare names that are no class, namesake of a re-exported class, built-in "
            "classes without Safe-DS counterpart.",
    "technique": "AST->SMT encoding of the path matcher (z3) + CrossHair symbolic execution of the generator with a closure oracle over recognised outputs",
}


def plan(tier):
    t = 300 if tier == "quick" else 900
    parts = [f"0:{c},1:{m},2:{n}" for c in range(2) for m in range(7) for n in range(3)]
    return [
        K("k_path_match", "kjobs.c11", "path_matching", "path/class matching vs segment suffix"),
        K("k_reexport_keys", "kjobs.c11", "reexport_key_matching", "re-export key selection vs dotted-segment membership"),
        CH("placeholders", "harness.c10", "placeholders", [f"0:{c},1:{a},2:{b}" for c in range(2) for a in range(2) for b in range(2)], timeout=t,
           desc="placeholder stubs: each path written once, every referenced foreign class declared where its import points",
           stubs=["in-memory FS"]),
        CH("closure", "harness.c11", "closure", parts, timeout=t, desc="references declared or imported; imports resolve",
           stubs=["in-memory FS"], symbolic="configuration selectors"),
    ]
