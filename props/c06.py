"""C06 - parameter lists are reproduced exactly."""
from vlib.plan import CH, K

FUNCTIONS = [
    "safeds_stubgen.api_analyzer._ast_visitor:MyPyAstVisitor._parse_parameter_data",
    "safeds_stubgen.api_analyzer._ast_visitor:MyPyAstVisitor._get_parameter_type_and_default_value",
    "safeds_stubgen.api_analyzer._mypy_helpers:get_argument_kind",
    "safeds_stubgen.api_analyzer._mypy_helpers:mypy_expression_to_python_value",
    "safeds_stubgen.api_analyzer._mypy_helpers:mypy_expression_to_sds_type",
    "safeds_stubgen.stubs_generator._stub_string_generator:StubsStringGenerator._create_parameter_string",
    "safeds_stubgen.stubs_generator._stub_string_generator:StubsStringGenerator._create_function_string",
    "safeds_stubgen.stubs_generator._stub_string_generator:StubsStringGenerator._create_class_string",
]
EXPLANATION = (
    "Engine K: get_argument_kind's real AST is decided against the documented classification as one query over the "
    "complete table (6 kinds x is_self x is_cls x pos_only). Engine C on the mypy shim: the real "
    "_parse_parameter_data runs on FuncDef nodes built for every signature Python accepts with <= 2 (quick) / 3 "
    "(thorough) parameters over the five kinds, annotated or not, default in {none, int, -int, float, str, None, True, "
    "False, non-literal name, call}, for functions, instance/class/static methods and constructors; a separate "
    "harness keeps the integer default SYMBOLIC (0..99) through IntExpr / UnaryExpr -> int(f'-{v}'); length, order, names, passing kind, "
    "optional <=> literal default and the default's value and type are compared with a reference. Generator side: "
    "_create_parameter_string (also with a symbolic integer default in -99..99) is compared by string equality with a "
    "reference rendering; for all signatures the recogniser's parameter list equals the model's list minus the "
    "receiver with true/false/null/number/string defaults. Shim conformance (every run): all signatures are rendered to "
    "Python source, parsed by the real mypy, and the real visitor must produce identical parameters on real nodes, on "
    "their generic shim conversion and on the builder-made shim nodes."
)
ASSUMPTIONS = [
    "the mypy shim (vlib/shim.py): node classes mirrored from the installed mypy, fields filled by builders that are "
    "validated against the real mypy on every run (conformance sub-check)",
    "plaintext docstrings, CODE preference (the interaction with docstring defaults is C14's subject)",
    "instance and class methods have their receiver as first parameter (a method 'def m(*args)' is outside the claim)",
    "model invariant on the generator side: a literal default implies a type (the analyser infers one from the default)",
    "symbolic integer default bounded to 0..99 (analyser) / -99..99 (renderer) - CrossHair forks on the decimal digits, so "
    "this is in effect a solver-driven exhaustive sweep of that range; float/str defaults are the constants 1.5 and 's'",
]
BOUNDS = {"quick": "<= 2 parameters (second parameter: 3 default kinds); 4465 signatures", "thorough": "<= 2 parameters with all 10 default kinds; 3 parameters with all default kinds for the first and 3 kinds for the others (50 565 signatures)"}
MANIFEST = {
    "text": "Bounded symbolic: classification table decided by z3; the analyser's parameter walk and the generator's "
            "parameter rendering are executed by CrossHair on every signature within the bound with the integer default "
            "left symbolic; partitions end in 'Confirmed over all paths'.",
    "note": "Trusted: z3/CrossHair; the mypy shim, whose builders are checked against the real mypy on every run; the "
            "recogniser. mypy itself is outside the claim.",
    "technique": "CrossHair symbolic execution of the real visitor on a validated pure-Python mypy shim (symbolic int defaults) + z3 truth-table query + differential rendering",
}


def plan(tier):
    t = 300 if tier == "quick" else 900
    parts = [f"0:{c},1:{n}" for c in range(5) for n in range(3 if tier == "quick" else 4)]
    if tier == "quick":
        parts = [f"0:{c},1:{n}" for c in range(5) for n in range(2)] + [f"0:{c},1:2,2:{k}" for c in range(5) for k in range(4)]
    else:  # 4-parameter signatures are split on kind and default of the first parameter (impossible combinations are empty partitions)
        parts = [f"0:{c},1:{n}" for c in range(5) for n in range(3)] + \
                [f"0:{c},1:3,2:{k},4:{d}" for c in range(5) for k in range(5) for d in range(10)]  # first parameter: kind x default
    return [
        K("k_kind", "kjobs.c06", "argument_kind", "argument kind truth table"),
        K("conformance", "harness.c06", "conformance_job", "shim builders vs real mypy", timeout=900),
        CH("analyser", "harness.c06", "analyser", parts, timeout=t, desc="_parse_parameter_data vs Python signature",
           symbolic="signature shape selectors", stubs=["mypy node classes -> validated shim", "plaintext docstring parser"],
           allow_empty=tier == "thorough"),
        CH("analyser_value", "harness.c06", "analyser_value", [""], timeout=t, desc="integer default stays symbolic (0..99)",
           symbolic="integer default value", stubs=["mypy node classes -> validated shim"]),
        CH("render", "harness.c06", "render", [f"0:{k}" for k in range(5)], timeout=t, desc="default rendering per kind"),
        CH("render_value", "harness.c06", "render_value", [""], timeout=t, desc="integer default rendering, symbolic (-99..99)",
           symbolic="integer default value"),
        CH("rendered_list", "harness.c06", "rendered_list", parts, timeout=t, desc="stub parameter list = model list minus receiver",
           allow_empty=tier == "thorough"),
    ]
