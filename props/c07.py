"""C07 - results mirror the return annotation, or soundly cover inferred returns."""
from vlib.plan import CH, K

FUNCTIONS = [
    "safeds_stubgen.api_analyzer._ast_visitor:MyPyAstVisitor._parse_results",
    "safeds_stubgen.api_analyzer._ast_visitor:MyPyAstVisitor._infer_type_from_return_stmts",
    "safeds_stubgen.api_analyzer._ast_visitor:MyPyAstVisitor._create_inferred_results",
    "safeds_stubgen.api_analyzer._ast_visitor:result_name_generator",
    "safeds_stubgen.api_analyzer._mypy_helpers:find_return_stmts_recursive",
    "safeds_stubgen.api_analyzer._mypy_helpers:mypy_expression_to_sds_type",
    "safeds_stubgen.stubs_generator._stub_string_generator:StubsStringGenerator._create_result_string",
]
EXPLANATION = (
    "Engine C on the mypy shim. (annotated) the real _parse_results on functions annotated with None, a scalar/class, "
    "a tuple of 1-3 elements, a union, a list or a tuple containing None, with result docstrings absent / all named / "
    "all unnamed: '-> None' renders no result list, a tuple yields one result per element in order, anything else "
    "exactly one result with the translated type, names from the docstring else result_1..n, ids well-formed and "
    "distinct, and the rendered result list (real _create_result_string, parsed by the recogniser) mirrors the API "
    "results. (grouping) the real _create_inferred_results on every sorted set of <= 2 (quick) / 3 (thorough) inferred "
    "return types (plain or tuples of <= 2/3 over 2/4 leaf types; three return types with the quick item pool) with 0-2 result docstrings: every returned type at "
    "every position is covered by the result at that position; ids distinct; no exception. (inferred) un-annotated "
    "functions whose body nests one 'return <literal | tuple | conditional expression>' in every combination (depth "
    "2) of if/else/elif, try/except/else/finally, for/else, while/else, with, match: the return statement is found "
    "and every returned literal kind is covered by the inferred result. (several_returns) two (thorough: three) return statements of different shapes - scalars, "
    "tuples of equal and different length incl. permutations of each other - are all covered position by position. "
    "(no_return) bodies without 'return <value>' yield no results. Shim conformance (every run): all statement trees (a spread of 500) and all annotation shapes are rendered to "
    "Python, parsed by the real mypy, and the real visitor must infer identical results on real and builder-made nodes."
)
ASSUMPTIONS = [
    "mypy shim validated against the real mypy on every run (conformance sub-check)",
    "mixed named/unnamed result docstrings are excluded (the statement does not fix the numbering)",
    "returned expressions: int/str/bool literals, a 2-tuple of literals, and a conditional expression of literals",
]
BOUNDS = {"quick": "statement nesting depth 2, one return per body; grouping: <= 2 return types", "thorough": "grouping: <= 2 return types with tuples of <= 3 over 4 leaf types, 3 return types with the quick item pool (plain or tuples of <= 2 over 2 leaf types)"}
MANIFEST = {
    "text": "Bounded symbolic: result construction, grouping of inferred results and the return-statement search are "
            "executed by CrossHair on every shape within the bound and compared with the statement's clauses.",
    "note": "Trusted: CrossHair/z3, the mypy shim (validated each run), recogniser and reference canonical forms. Known "
            "findings: tuple annotations containing None; duplicate result names when counts differ.",
    "technique": "CrossHair symbolic execution of the real visitor on a validated mypy shim; coverage oracle for inferred results",
}


def plan(tier):
    t = 300 if tier == "quick" else 900
    return [
        K("conformance", "harness.c07", "conformance_job", "shim builders vs real mypy", timeout=900),
        CH("annotated", "harness.c07", "annotated", [f"0:{s}" for s in range(6)], timeout=t, desc="results vs annotation",
           stubs=["mypy node classes -> validated shim"], symbolic="shape selectors"),
        CH("grouping", "harness.c07", "grouping", [f"0:{n},1:{a}" + x for n in range(3 if tier == "thorough" else 2) for a in range(4 if tier == "thorough" else 3)
                                                   for x in ([f",2:{k}" for k in range(12)] if tier == "thorough" and n >= 1 else [""])],
           timeout=t, allow_empty=tier == "thorough", desc="inferred result grouping covers every returned type", symbolic="shape selectors"),
        CH("inferred", "harness.c07", "inferred", [f"0:{k}" for k in range(14)], timeout=t, desc="return-statement search and coverage",
           stubs=["mypy node classes -> validated shim"], symbolic="statement-tree selectors"),
        CH("no_return", "harness.c07", "no_return", [""], timeout=t, desc="no annotation, no returned value -> no results"),
        CH("several_returns", "harness.c07", "several_returns", [f"0:{a}" for a in range(7)], timeout=t,
           desc="two or three return statements of different shapes are all covered", stubs=["mypy node classes -> validated shim"]),
    ]
