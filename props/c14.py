"""C14 - type-source preference settles only real conflicts; warnings never alter output."""
from vlib.plan import CH, K

FUNCTIONS = [
    "safeds_stubgen.api_analyzer._ast_visitor:MyPyAstVisitor.enter_funcdef",
    "safeds_stubgen.api_analyzer._ast_visitor:MyPyAstVisitor._parse_results",
    "safeds_stubgen.api_analyzer._type_source_enums:TypeSourcePreference.from_string",
    "safeds_stubgen.api_analyzer._type_source_enums:TypeSourceWarning.from_string",
    "safeds_stubgen.docstring_parsing._docstring_style:DocstringStyle.from_string",
    "safeds_stubgen.api_analyzer.cli._cli:_get_args",
    "safeds_stubgen.api_analyzer.cli._cli:_run_stub_generator",
]
EXPLANATION = (
    "Engine C on the mypy shim with the docstring parser replaced by a nondeterministic stub: the real enter_funcdef "
    "runs on functions with 1-2 parameters and 0-1 (quick) / 0-2 (thorough) documented results; per parameter the hint "
    "is absent/int/str, the docstring type absent/int/str, the docstring default absent/'5', a code default present or "
    "not; the return hint absent/int/str; both preferences. Each configuration is run under WARN and under IGNORE with "
    "logging.warning recorded: the chosen type follows the statement's table, the produced Function/parameters/results "
    "are identical under both warning settings, nothing is logged under IGNORE, and under WARN exactly one warning per "
    "parameter/result whose two types are both present and different. Engine K: from_string of the three option enums "
    "accepts exactly the member names case-insensitively and raises ValueError otherwise, for every ASCII string within "
    "the bound. Engine C: the CLI wiring forwards -tsp/-tsw unchanged."
    " Parameters without type hint but with a literal default are included (the type the analyser infers from the default counts as the code's type), and return hints that are written but unresolvable (Any of kind special_form with an UnboundType; Any from_unimported_type without import name)."
)
ASSUMPTIONS = [
    "docstring parser -> stub returning the selected types/defaults (the griffe-based extraction of types from real "
    "docstrings is third-party parsing: not applicable)",
    "mypy shim for the function nodes",
]
BOUNDS = {"quick": "<= 2 parameters, <= 1 documented result; option strings <= 9 chars", "thorough": "<= 2 documented results; option strings <= 10 chars"}
MANIFEST = {
    "text": "Bounded symbolic: the reconciliation table, the warning set and WARN/IGNORE output equality are decided by "
            "CrossHair for every configuration within the bound; option parsing by z3 for all strings within the bound.",
    "note": "Trusted: CrossHair/z3, shim, translator validation. A type inferred from a literal default counts as the "
            "code's type. Known findings: the docstring's default/optionality replace the code's (DOCSTRING preference; "
            "parameters without type hint).",
    "technique": "CrossHair symbolic execution of the real visitor with a nondeterministic docstring stub + AST->SMT encoding of option parsing",
}


def plan(tier):
    t = 400 if tier == "quick" else 900
    parts = [f"0:{n},1:{p},2:{r}" for n in range(2) for p in range(2) for r in range(7) if not (n == 1 and r in (3, 4))]  # parameters x preference x return hint
    if tier == "thorough":  # ... x number of documented results
        parts = [f"0:{n},1:{p},2:{r},3:{k}" for n in range(2) for p in range(2) for r in range(7) for k in range(3)]
    return [
        K("k_options", "kjobs.c14", "option_parsing", "from_string of the option enums"),
        CH("reconcile", "harness.c14", "reconcile", parts, timeout=t, desc="preference table, warning set, WARN == IGNORE output",
           stubs=["docstring parser -> nondeterministic stub", "logging.warning -> recorder", "mypy node classes -> shim"],
           symbolic="configuration selectors"),
        CH("wiring", "harness.cli", "wiring", [f"0:{s}" for s in range(7)], timeout=t, desc="-tsp/-tsw reach get_api unchanged",
           stubs=["_run_stub_generator / get_api / generator / file creation -> recorders"]),
    ]
