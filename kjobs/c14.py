"""Engine-K job for C14: option parsing (from_string of the three option enums)."""
from __future__ import annotations

import z3

from safeds_stubgen.api_analyzer._type_source_enums import TypeSourcePreference, TypeSourceWarning
from safeds_stubgen.docstring_parsing import DocstringStyle
from vlib.ek.bstr import BStr, show
from vlib.ek.evalr import Choice, Ev
from vlib.ek.job import THOROUGH, KJob


def option_parsing():
    job = KJob("C14")
    n = 10 if THOROUGH else 9
    key = BStr.var("key", n)
    for enum_cls in (TypeSourcePreference, TypeSourceWarning, DocstringStyle):
        fn = enum_cls.from_string
        ev = Ev(fn)
        out = ev.call(key)
        out = out if isinstance(out, Choice) else Choice([(z3.BoolVal(True), out)])
        up = key.upper()
        cases = []
        for m in enum_cls:
            is_m = up.eq(BStr.const(m.name))
            cases.append(z3.Implies(is_m, z3.And(out.eq(m), z3.Not(ev.raise_guard()))))
        none = z3.And(*[z3.Not(up.eq(BStr.const(m.name))) for m in enum_cls])
        other = [g for g, nme in ev.raises if nme != "ValueError"]
        claim = z3.And(*cases, z3.Implies(none, ev.raise_guard("ValueError")), z3.Not(z3.Or(*other)) if other else z3.BoolVal(True))

        def replay(i, enum_cls=enum_cls):
            want = {m.name: m for m in enum_cls}.get(i["key"].upper())
            try:
                got = enum_cls.from_string(i["key"])
            except ValueError:
                return want is not None, "ValueError"
            except Exception as e:  # noqa: BLE001
                return True, f"{type(e).__name__}"
            return got is not want, repr(got)

        job.prove(f"from_string[{enum_cls.__name__}]", [key.wf()], claim, decode=lambda m: {"key": show(m, key)}, replay=replay,
                  bound=f"all 7-bit ASCII strings up to {n} characters ({len(list(enum_cls))} member names, case-insensitive)")
    samples = [("code",), ("CODE",), ("Docstring",), ("x",), ("",), ("warn",), ("IGNORE",), ("numpydoc",), ("rest ",)]
    for enum_cls in (TypeSourcePreference, TypeSourceWarning, DocstringStyle):
        def enc(s, enum_cls=enum_cls):
            ev = Ev(enum_cls.from_string)
            out = ev.call(BStr.const(s))
            if z3.is_true(z3.simplify(ev.raise_guard("ValueError"))):
                return "raise ValueError"
            out = out if isinstance(out, Choice) else Choice([(z3.BoolVal(True), out)])
            for g, o in out.alts:
                if z3.is_true(z3.simplify(g)):
                    return o
            return None
        job.validate(f"{enum_cls.__name__}.from_string", enc, enum_cls.from_string, samples)
    return job.result()
