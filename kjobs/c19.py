"""Engine-K job for C19: BoundaryType equality against the key its __hash__ hashes, over symbolic field values."""
from __future__ import annotations

import z3

from safeds_stubgen.api_analyzer._types import BoundaryType
from vlib.ek.evalr import Choice, Ev, SymObj
from vlib.ek.job import KJob


def _ident(x):
    return x


_ident._ek_stub = True


def _bt(prefix: str, max_kind: str, min_kind: str = "number"):
    base = Choice([(z3.Bool(f"{prefix}_is_int"), "int"), (z3.Not(z3.Bool(f"{prefix}_is_int")), "float")])
    mx = {"number": z3.Int(f"{prefix}_max"), "infinity": "Infinity"}[max_kind]
    mn = {"number": z3.Int(f"{prefix}_min"), "infinity": "NegativeInfinity"}[min_kind]
    return SymObj(cls=BoundaryType, base_type=base, min=mn, max=mx,
                  min_inclusive=z3.Bool(f"{prefix}_min_incl"), max_inclusive=z3.Bool(f"{prefix}_max_incl"))


def _concrete(m, o: SymObj):
    def val(v):
        if isinstance(v, Choice):
            for g, c in v.alts:
                if z3.is_true(m.eval(g, model_completion=True)):
                    return c
        if z3.is_expr(v):
            r = m.eval(v, model_completion=True)
            return z3.is_true(r) if z3.is_bool(r) else r.as_long()
        return v
    a = o._attrs
    return BoundaryType(val(a["base_type"]), val(a["min"]), val(a["max"]), val(a["min_inclusive"]), val(a["max_inclusive"]))


def _hash_key(o: SymObj, hash_globs):
    """The value __hash__ hashes: from the method's source, or - for a dataclass-generated __hash__, which has no
    source - the tuple of the fields that take part in comparison (dataclasses.fields)."""
    import dataclasses

    try:
        h = Ev(BoundaryType.__hash__)
    except (OSError, TypeError):
        return tuple(o.get(f.name) for f in dataclasses.fields(BoundaryType) if f.compare)
    h.globs = hash_globs
    return h.call(o)


def boundary_eq_hash():
    job = KJob("C19")
    hash_globs = dict(BoundaryType.__hash__.__globals__)
    hash_globs["hash"] = _ident  # the hashed key itself is compared: equal keys => equal hashes
    for ka, kb, kmin in [(x, y, z) for x in ("number", "infinity") for y in ("number", "infinity") for z in ("number", "infinity")]:
        if True:
            a, b = _bt("a", ka, kmin), _bt("b", kb, kmin)
            ev = Ev(BoundaryType.__eq__)
            eq_ab = ev.truth(ev.call(a, b))
            eq_ba = Ev(BoundaryType.__eq__).truth(Ev(BoundaryType.__eq__).call(b, a))
            eq_aa = Ev(BoundaryType.__eq__).truth(Ev(BoundaryType.__eq__).call(a, a))
            key_a, key_b = _hash_key(a, hash_globs), _hash_key(b, hash_globs)
            same_key = ev.compare_eq(key_a, key_b)
            decode = lambda m, a=a, b=b: {"a": repr(_concrete(m, a)), "b": repr(_concrete(m, b))}  # noqa: E731

            def replay(i, a=a, b=b):
                x, y = eval(i["a"], {"BoundaryType": BoundaryType}), eval(i["b"], {"BoundaryType": BoundaryType})
                bad = (x == y) != (y == x) or not (x == x) or ((x == y) and hash(x) != hash(y))
                return bad, f"a==b {x == y}, b==a {y == x}, hashes {hash(x)} {hash(y)}"

            job.prove(f"eq_implies_same_hash_key[max {ka}/{kb}, min {kmin}]", [], z3.And(z3.Implies(eq_ab, same_key), eq_ab == eq_ba, eq_aa),
                      decode=decode, replay=replay,
                      bound="all field values: base type int/float, integer minima (or NegativeInfinity) / maxima (or Infinity), both inclusiveness flags")
    return job.result()
