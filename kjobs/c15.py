"""Engine-K jobs for C15: the test-directory filter of get_api, extracted from its AST."""
from __future__ import annotations

import ast

import z3

from safeds_stubgen.api_analyzer import _get_api as G
from vlib.ek.bstr import BStr, show
from vlib.ek.evalr import Ev, SymObj, find_nodes
from vlib.ek.job import THOROUGH, KJob, concrete

SKIP_DIRS = ("test", "tests", "docs")


def _loop():
    loops = find_nodes(G.get_api, lambda nd: isinstance(nd, ast.For) and isinstance(nd.target, ast.Name) and nd.target.id == "file_path")
    if len(loops) != 1:
        raise RuntimeError(f"expected one 'for file_path in ...' loop in get_api, found {len(loops)}")
    loop = loops[0]
    ifs = [s for s in loop.body if isinstance(s, ast.If)]
    if len(ifs) < 2:
        raise RuntimeError("expected the test-directory test and the __init__ test in the loop body")
    return loop, ifs[0], ifs[1]


def _loop_body_is_stateless(loop) -> str:
    """The loop body may only write the two result lists (and a log message): then one iteration decides one file."""
    stored = {n.id for st in loop.body for n in ast.walk(st) if isinstance(n, ast.Name) and isinstance(n.ctx, ast.Store)}
    mutated = {n.func.value.id for st in loop.body for n in ast.walk(st)
               if isinstance(n, ast.Call) and isinstance(n.func, ast.Attribute) and isinstance(n.func.value, ast.Name)
               and n.func.attr in ("append", "add", "extend", "update", "insert", "pop", "remove", "clear")}
    extra = (stored - {"log_msg"}) | (mutated - {"walkable_files", "package_paths"})
    return "" if not extra else f"loop body carries state between files: {sorted(extra)}"


def _real_skipped(parts, is_test_run):
    """The filter expression compiled from the current source and evaluated natively."""
    _, first, _ = _loop()
    from types import SimpleNamespace

    code = compile(ast.Expression(first.test), "<get_api filter>", "eval")
    return bool(eval(code, dict(G.__dict__), {"file_path": SimpleNamespace(parts=tuple(parts)), "is_test_run": is_test_run}))


def directory_filter():
    job = KJob("C15")
    n_parts = 5 if THOROUGH else 4
    cap = 7 if THOROUGH else 6
    loop, first, second = _loop()
    problem = _loop_body_is_stateless(loop)
    if problem:
        return {"queries": [{"id": "loop_body_stateless", "verdict": "harness_error", "detail": problem, "seconds": 0, "bound": "syntactic"}],
                "validation": job.validation}
    parts = [BStr.var(f"part{i}", cap) for i in range(n_parts)]
    flag = z3.Bool("is_test_run")
    alphabet = [ord(c) for c in "tesdoc_.xy"]
    wf = [p.wf(alphabet, min_len=1) for p in parts]
    ev = Ev(node=ast.parse("def f(): pass").body[0], globs=G.get_api.__globals__)
    skipped = ev.truth(ev.expr(first.test, {"file_path": SymObj(parts=tuple(parts)), "is_test_run": flag}))
    in_skip_dir = z3.Or(*[p.eq(BStr.const(d)) for p in parts for d in SKIP_DIRS])
    decode = lambda m: {"parts": [show(m, p) for p in parts], "is_test_run": z3.is_true(m.eval(flag, model_completion=True))}  # noqa: E731
    job.prove("skipped_iff_flag_off_and_exact_directory_name", wf, skipped == z3.And(z3.Not(flag), in_skip_dir),
              decode=decode,
              replay=lambda i: (_real_skipped(i["parts"], i["is_test_run"]) != ((not i["is_test_run"]) and any(p in SKIP_DIRS for p in i["parts"])),
                                f"real filter gives {_real_skipped(i['parts'], i['is_test_run'])}"),
              bound=f"paths of {n_parts} parts, each 1..{cap} characters over {{t,e,s,d,o,c,_,.,x,y}} (contains test, tests, docs, "
                    "testes, test_x, docs_, ...)")
    job.prove("flag_on_skips_nothing", [*wf, flag], z3.Not(skipped), decode=decode,
              replay=lambda i: (_real_skipped(i["parts"], True), "skipped although the flag is on"),
              bound="as above, flag on")
    # lookalike names are never skipped (a consequence spelt out because it is what users rely on)
    lookalike = z3.And(*[z3.And(*[z3.Not(p.eq(BStr.const(d))) for d in SKIP_DIRS]) for p in parts])
    job.prove("lookalike_names_never_skipped", [*wf, lookalike], z3.Not(skipped), decode=decode,
              replay=lambda i: (_real_skipped(i["parts"], i["is_test_run"]), "skipped although no part is test/tests/docs"),
              bound="as above, no part equal to test/tests/docs")
    # second test: a file is a package entry iff its last part is exactly __init__.py
    last = BStr.var("last", 12)
    ev2 = Ev(node=ast.parse("def f(): pass").body[0], globs=G.get_api.__globals__)
    is_pkg = ev2.truth(ev2.expr(second.test, {"file_path": SymObj(parts=(parts[0], last))}))
    job.prove("package_entry_iff_init_file", [parts[0].wf(alphabet, min_len=1), last.wf(min_len=1)],
              z3.And(is_pkg == last.eq(BStr.const("__init__.py")), z3.Not(ev2.raise_guard())),
              decode=lambda m: {"last": show(m, last)},
              replay=lambda i: (False, "n/a"), bound="last path part: any ASCII string up to 12 characters")
    rng = job.rng
    pool = ["test", "tests", "docs", "testing", "test_x.py", "mytests", "docs_old", "src", "pkg", "a.py", "Test", "tes"]
    samples = [([rng.choice(pool) for _ in range(n_parts)], rng.random() < 0.5) for _ in range(150)]
    job.validate("get_api filter", lambda ps, f: concrete(Ev(node=ast.parse("def f(): pass").body[0], globs=G.get_api.__globals__).truth(
        Ev(node=ast.parse("def f(): pass").body[0], globs=G.get_api.__globals__).expr(first.test, {"file_path": SymObj(parts=tuple(BStr.const(p) for p in ps)), "is_test_run": f}))),
        _real_skipped, samples)
    return job.result()
