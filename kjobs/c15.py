"""Engine-K jobs for C15: the test-directory filter of get_api, extracted from its AST."""
from __future__ import annotations

import ast

import z3

from safeds_stubgen.api_analyzer import _get_api as G
from vlib.ek.bstr import BStr, show
from vlib.ek.evalr import Ev, SymObj, find_nodes
from vlib.ek.job import THOROUGH, KJob, concrete

SKIP_DIRS = ("test", "tests", "docs")


def _loop():
    loops = find_nodes(G.get_api, lambda nd: isinstance(nd, ast.For) and isinstance(nd.target, ast.Name) and nd.target.id == "file_path")
    if len(loops) != 1:
        raise RuntimeError(f"expected one 'for file_path in ...' loop in get_api, found {len(loops)}")
    loop = loops[0]
    ifs = [s for s in loop.body if isinstance(s, ast.If)]
    if len(ifs) < 2:
        raise RuntimeError("expected the test-directory test and the __init__ test in the loop body")
    return loop, ifs[0], ifs[1]


def _loop_body_is_stateless(loop) -> str:
    """The loop body may only write the two result lists (and a log message): then one iteration decides one file."""
    stored = {n.id for st in loop.body for n in ast.walk(st) if isinstance(n, ast.Name) and isinstance(n.ctx, ast.Store)}
    mutated = {n.func.value.id for st in loop.body for n in ast.walk(st)
               if isinstance(n, ast.Call) and isinstance(n.func, ast.Attribute) and isinstance(n.func.value, ast.Name)
               and n.func.attr in ("append", "add", "extend", "update", "insert", "pop", "remove", "clear")}
    extra = (stored - {"log_msg"}) | (mutated - {"walkable_files", "package_paths"})
    return "" if not extra else f"loop body carries state between files: {sorted(extra)}"


class _Recorder:
    """A list stand-in that records under which path condition something is appended to it."""

    def __init__(self, ev):
        self.ev, self.guards = ev, []
        self.append = self._append
        self._append.__func__._ek_stub = True  # type: ignore[attr-defined]

    def _append(self, _value):
        self.guards.append(self.ev.g)

    def hit(self):
        from vlib.ek.bstr import _or

        return _or(*self.guards)


def _outcome(loop, parts, flag):
    """Symbolic outcome of ONE iteration of the collection loop: (added to package_paths, added to walkable_files)."""
    ev = Ev(node=ast.parse("def f(): pass").body[0], globs=G.get_api.__globals__)
    pk, wk = _Recorder(ev), _Recorder(ev)
    path_str = BStr.const("<path>")
    fp = SymObj(parts=tuple(parts), name=parts[-1], parent=SymObj(**{"__str__": BStr.const("<parent>")}), **{"__str__": path_str})
    env = {"file_path": fp, "is_test_run": flag, "package_paths": pk, "walkable_files": wk}
    ev._continue, ev._break = [], []
    ev.block(loop.body, env, z3.BoolVal(True))
    return ev, pk.hit(), wk.hit()


def _real_outcome(parts, is_test_run):
    """The loop body of the current source, executed natively for one file."""
    import pathlib

    loop, _, _ = _loop()
    mod = ast.Module(body=[ast.For(target=loop.target, iter=ast.Name(id="__files", ctx=ast.Load()), body=loop.body, orelse=[])], type_ignores=[])
    ast.fix_missing_locations(mod)
    env = dict(G.__dict__)
    env.update({"__files": [pathlib.PurePosixPath(*parts)], "is_test_run": is_test_run, "package_paths": [], "walkable_files": []})
    exec(compile(mod, "<get_api loop>", "exec"), env)  # noqa: S102
    return bool(env["package_paths"]), bool(env["walkable_files"])


def directory_filter():
    job = KJob("C15")
    n_parts = 5 if THOROUGH else 4
    cap = 7 if THOROUGH else 6
    loop, _, _ = _loop()
    problem = _loop_body_is_stateless(loop)
    if problem:
        return {"queries": [{"id": "loop_body_stateless", "verdict": "harness_error", "detail": problem, "seconds": 0, "bound": "syntactic"}],
                "validation": job.validation}
    parts = [BStr.var(f"part{i}", cap) for i in range(n_parts - 1)] + [BStr.var("last", 12)]
    flag = z3.Bool("is_test_run")
    alphabet = [ord(c) for c in "tesdoc_.xyinp"]
    wf = [p.wf(alphabet, min_len=1) for p in parts]
    ev, is_pkg, is_file = _outcome(loop, parts, flag)
    contributes = z3.Or(is_pkg, is_file)
    in_skip_dir = z3.Or(*[p.eq(BStr.const(d)) for p in parts for d in SKIP_DIRS])
    decode = lambda m: {"parts": [show(m, p) for p in parts], "is_test_run": z3.is_true(m.eval(flag, model_completion=True))}  # noqa: E731

    def replay(i):
        pkg, fil = _real_outcome(i["parts"], i["is_test_run"])
        skip = (not i["is_test_run"]) and any(p in SKIP_DIRS for p in i["parts"])
        init = i["parts"][-1] == "__init__.py"
        bad = (pkg or fil) == skip or (not skip and (pkg != init or fil == init))
        return bad, f"real loop: package={pkg} file={fil}"

    job.prove("contributes_iff_flag_on_or_no_exact_directory_name", wf,
              z3.And(contributes == z3.Not(z3.And(z3.Not(flag), in_skip_dir)), z3.Not(ev.raise_guard())), decode=decode, replay=replay,
              bound=f"paths of {n_parts} parts (directories 1..{cap} chars, file name 1..12 chars) over {{t,e,s,d,o,c,_,.,x,y,i,n,p}} - spells test, "
                    "tests, docs, __init__.py and their look-alikes (testes, test_x, docs_, x__init__.py)")
    job.prove("flag_on_every_file_contributes", [*wf, flag], contributes, decode=decode, replay=replay, bound="as above, flag on")
    lookalike = z3.And(*[z3.And(*[z3.Not(p.eq(BStr.const(d))) for d in SKIP_DIRS]) for p in parts])
    job.prove("lookalike_names_never_skipped", [*wf, lookalike], contributes, decode=decode, replay=replay,
              bound="as above, no part equal to test/tests/docs")
    job.prove("package_entry_iff_init_file", wf, z3.And(z3.Implies(contributes, is_pkg == parts[-1].eq(BStr.const("__init__.py"))),
                                                         z3.Not(z3.And(is_pkg, is_file))), decode=decode, replay=replay,
              bound="as above: a contributing file is a package entry iff its name is exactly __init__.py, otherwise a walkable file")
    rng = job.rng
    pool = ["test", "tests", "docs", "testing", "test_x.py", "mytests", "docs_old", "src", "pkg", "a.py", "Test", "tes", "__init__.py", "x__init__.py"]
    samples = [([rng.choice(pool) for _ in range(n_parts)], rng.random() < 0.5) for _ in range(150)]

    def enc(ps, f):
        e2, a, b = _outcome(loop, [BStr.const(p) for p in ps], z3.BoolVal(f))
        return concrete(a), concrete(b)

    job.validate("get_api collection loop", enc, _real_outcome, samples)
    return job.result()
