"""Engine-K jobs for C09: algebra of the naming-conversion kernel."""
from __future__ import annotations

import z3

from kjobs.c02 import _core_regions, _test_inputs_convert
from kjobs.common import ident, is_digit, random_ident
from safeds_stubgen.stubs_generator import _helper as H
from vlib.ek.bstr import BStr, I, show
from vlib.ek.evalr import Ev
from vlib.ek.job import THOROUGH, KJob, concrete

NC = H.NamingConvention
fn = H._convert_name_to_convention


def _is_upper(c):
    return z3.And(c >= 65, c <= 90)


def _is_lower(c):
    return z3.And(c >= 97, c <= 122)


def conversion_off():
    job = KJob("C09")
    n = 12 if THOROUGH else 10
    x = BStr.var("x", n)
    for is_class in (False, True):
        ev = Ev(fn)
        out = ev.call(x, NC.PYTHON, is_class)
        job.prove(
            f"off_is_identity[is_class={is_class}]", [x.wf()], z3.And(out.eq(x), z3.Not(ev.raise_guard())),
            decode=lambda m: {"x": show(m, x), "is_class": is_class},
            replay=lambda i: (fn(i["x"], NC.PYTHON, i["is_class"]) != i["x"], repr(fn(i["x"], NC.PYTHON, i["is_class"]))),
            bound=f"all 7-bit ASCII strings up to {n} characters (not only identifiers)",
        )
    return job.result()


def _strip_underscores(x: BStr):
    """x with all underscores removed, as (length, chars) via a running write index."""
    out_len = I(0)
    chars = [I(0)] * x.cap
    for i in range(x.cap):
        keep = z3.And(x.ln > i, x.ch[i] != 95)
        chars = [z3.If(z3.And(keep, out_len == j), x.ch[i], chars[j]) for j in range(x.cap)]
        out_len = z3.If(keep, out_len + 1, out_len)
    return BStr(out_len, chars)


def conversion_on():
    job = KJob("C09")
    n = 9 if THOROUGH else 7
    x = BStr.var("x", n)
    lead = x.lead_count(lambda c: c == 95)
    trail = x.trail_count(lambda c: c == 95)
    for is_class in (False, True):
        ev = Ev(fn)
        out = ev.call(x, NC.SAFE_DS, is_class)
        regions = _core_regions(x)
        assume = [x.wf(), ident(x), z3.Not(x.eq(BStr.const("_")))]
        # (a) no underscore survives
        job.prove(f"no_underscore[is_class={is_class}]", assume, out.count_char(95) == 0,
                  decode=lambda m: {"x": show(m, x), "is_class": is_class},
                  replay=lambda i: ("_" in fn(i["x"], NC.SAFE_DS, i["is_class"]), repr(fn(i["x"], NC.SAFE_DS, i["is_class"]))),
                  bound=f"all ASCII identifiers up to {n} characters", regions=regions)
        # (b) only letter case changes: lower(result) == lower(x without underscores)
        job.prove(f"letters_preserved[is_class={is_class}]", assume, out.lower().eq(_strip_underscores(x).lower()),
                  decode=lambda m: {"x": show(m, x), "is_class": is_class},
                  replay=lambda i: (fn(i["x"], NC.SAFE_DS, i["is_class"]).lower() != i["x"].replace("_", "").lower(),
                                    repr(fn(i["x"], NC.SAFE_DS, i["is_class"]))),
                  bound=f"all ASCII identifiers up to {n} characters", regions=regions)
        # (c) first character: upper-cased for classes, untouched for everything else
        first_in = x.at(lead)
        first_out = out.at(I(0))
        want = z3.If(_is_lower(first_in), first_in - 32, first_in) if is_class else first_in
        job.prove(f"first_char[is_class={is_class}]", assume, first_out == want,
                  decode=lambda m: {"x": show(m, x), "is_class": is_class},
                  replay=lambda i: (_first_bad(i["x"], i["is_class"]), repr(fn(i["x"], NC.SAFE_DS, i["is_class"]))),
                  bound=f"all ASCII identifiers up to {n} characters", regions=regions)
        # (d) result == x  <=>  no underscore in x and (not class or first char is not lower-case)
        unchanged = z3.And(x.count_char(95) == 0, z3.Not(_is_lower(x.at(I(0)))) if is_class else z3.BoolVal(True))
        job.prove(f"differs_iff[is_class={is_class}]", assume, out.eq(x) == unchanged,
                  decode=lambda m: {"x": show(m, x), "is_class": is_class},
                  replay=lambda i: (_differs_bad(i["x"], i["is_class"]), repr(fn(i["x"], NC.SAFE_DS, i["is_class"]))),
                  bound=f"all ASCII identifiers up to {n} characters", regions=regions)
    rng = job.rng
    samples = _test_inputs_convert() + [(random_ident(rng, n), NC.SAFE_DS, rng.random() < 0.5) for _ in range(100)]
    job.validate("_convert_name_to_convention", lambda s, c, k: concrete(Ev(fn).call(BStr.const(s), c, k)), fn, samples)
    return job.result()


def _first_bad(x, is_class):
    core = x.lstrip("_")
    out = fn(x, NC.SAFE_DS, is_class)
    if not core:
        return out != ""
    want = core[0].upper() if is_class else core[0]
    return out[:1] != want


def _differs_bad(x, is_class):
    out = fn(x, NC.SAFE_DS, is_class)
    unchanged = "_" not in x and (not is_class or not x[0].islower())
    return (out == x) != unchanged


def dotted_paths():
    """Package paths: converting the dotted path as one string must equal converting each segment."""
    job = KJob("C09")
    n = 5 if THOROUGH else 4
    a, b = BStr.var("a", n), BStr.var("b", n)
    path = a.concat(BStr.const(".")).concat(b)
    ev = Ev(fn)
    whole = ev.call(path, NC.SAFE_DS, False)
    seg = Ev(fn).call(a, NC.SAFE_DS, False).concat(BStr.const(".")).concat(Ev(fn).call(b, NC.SAFE_DS, False))
    second_private = z3.And(b.ln > 0, b.ch[0] == 95)
    first_trailing = z3.And(a.ln > 0, a.at(a.ln - 1) == 95)
    regions = {
        "dotted_inner_underscore_boundary": (
            z3.Or(second_private, first_trailing),
            "a package path whose segment starts or ends with an underscore next to a dot is converted as one string: "
            "the letter after the dot is upper-cased / the underscore handling differs from per-segment conversion"),
        **{k: (z3.Or(v[0], _core_regions(b)[k][0]), v[1]) for k, v in _core_regions(a).items()},
    }
    job.prove("dotted_equals_per_segment", [a.wf(), b.wf(), ident(a), ident(b)], whole.eq(seg),
              decode=lambda m: {"a": show(m, a), "b": show(m, b)},
              replay=lambda i: (fn(i["a"] + "." + i["b"], NC.SAFE_DS) != fn(i["a"], NC.SAFE_DS) + "." + fn(i["b"], NC.SAFE_DS),
                                repr(fn(i["a"] + "." + i["b"], NC.SAFE_DS))),
              bound=f"two segments, each an ASCII identifier up to {n} characters", regions=regions)
    return job.result()
