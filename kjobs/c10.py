"""Engine-K jobs for C10: file-name and path arithmetic on symbolic names."""
from __future__ import annotations

import ast

import z3

from kjobs.common import ident
from safeds_stubgen.stubs_generator import _generate_stubs as GS
from vlib.ek.bstr import BStr, GList, I, show
from vlib.ek.evalr import Ev, find_nodes
from vlib.ek.job import THOROUGH, KJob, concrete


def file_base_name():
    """The expression that derives the stub file's base name from the module name strips exactly the leading underscores."""
    job = KJob("C10")
    n = 10 if THOROUGH else 8
    fn = GS.create_stub_files
    cands = find_nodes(fn, lambda nd: isinstance(nd, ast.Assign) and isinstance(nd.targets[0], ast.Name)
                       and nd.targets[0].id == "public_module_name")
    if len(cands) != 1:
        raise RuntimeError(f"expected one assignment to public_module_name, found {len(cands)}")
    expr = cands[0].value
    var = [x.id for x in ast.walk(expr) if isinstance(x, ast.Name)][0]
    x = BStr.var("x", n)
    ev = Ev(node=ast.parse("def f(): pass").body[0], globs=fn.__globals__)
    out = ev.lift(ev.expr(expr, {var: x}))
    lead = x.lead_count(lambda c: c == 95)
    claim = z3.And(out.eq(x.slice(lead, x.ln)), z3.Or(out.ln == 0, out.ch[0] != 95))
    src = ast.unparse(expr)
    job.prove("strip_leading_underscores", [x.wf(), ident(x)], claim,
              decode=lambda m: {"x": show(m, x)},
              replay=lambda i: (eval(src, {var: i["x"]}) != i["x"][len(i["x"]) - len(i["x"].lstrip("_")):], repr(eval(src, {var: i["x"]}))),
              bound=f"all ASCII identifiers up to {n} characters")
    return job.result()


def _prefix():
    fn = GS._create_outside_package_class
    node = find_nodes(fn, lambda nd: isinstance(nd, ast.FunctionDef))[0]
    prefix = []
    for st in node.body:
        if isinstance(st, ast.Assign) and not any(isinstance(x, ast.Name) and x.id in ("Path", "out_path") for x in ast.walk(st)):
            prefix.append(st)
        else:
            break
    return fn, node, prefix


def outside_no_dot(job: KJob, n: int) -> None:
    """(used by C01) a qualified name without a dot must not make the path arithmetic raise."""
    fn, node, prefix = _prefix()
    a = BStr.var("a", n)
    # a qualified name without a dot: the function must not raise (expected: IndexError -> recorded under C01)
    ev = Ev(node=node, globs=fn.__globals__)
    env = {"class_path": a}
    ev.block(prefix, env, z3.BoolVal(True))
    job.prove("no_index_error_without_dot", [a.wf(), ident(a)], z3.Not(ev.raise_guard()),
              decode=lambda m: {"qname": show(m, a)},
              replay=lambda i: _replay_raises(i["qname"]),
              bound=f"dot-less names up to {n} characters",
              regions={"outside_class_without_module": (z3.BoolVal(True), "a referenced class whose qualified name has no dot (no module part) makes _create_outside_package_class fail with IndexError")})


def outside_package_paths():
    """_create_outside_package_class: directory = all segments but the class, file = last module segment, package line
    = the same segments joined by '.', for every qualified name with at least one dot; never an IndexError."""
    job = KJob("C10")
    n = 4 if THOROUGH else 3
    fn = GS._create_outside_package_class
    node = find_nodes(fn, lambda nd: isinstance(nd, ast.FunctionDef))[0]
    # the leading statements that only do string arithmetic on class_path (everything before the first use of Path)
    prefix = []
    for st in node.body:
        if isinstance(st, ast.Assign) and not any(isinstance(x, ast.Name) and x.id in ("Path", "out_path") for x in ast.walk(st)):
            prefix.append(st)
        else:
            break
    names = {t.id for st in prefix for t in st.targets if isinstance(t, ast.Name)}
    if not {"class_name", "module_name", "module_path", "path_parts"} <= names:
        raise RuntimeError(f"path arithmetic prefix not recognised: {sorted(names)}")
    a, b, c = BStr.var("a", n), BStr.var("b", n), BStr.var("c", n)
    dot = BStr.const(".")
    wf = [a.wf(), b.wf(), c.wf(), ident(a), ident(b), ident(c)]
    for segs, label in (([a, c], "one_module_segment"), ([a, b, c], "two_module_segments")):
        q = segs[0]
        for s in segs[1:]:
            q = q.concat(dot).concat(s)
        ev = Ev(node=node, globs=fn.__globals__)
        env = {"class_path": q}
        ev.gstack = [z3.BoolVal(True)]
        ev.block(prefix, env, z3.BoolVal(True))
        want_path = segs[0]
        for s in segs[1:-1]:
            want_path = want_path.concat(BStr.const("/")).concat(s)
        python_module_path = env["path_parts"].join(dot) if isinstance(env["path_parts"], GList) else None
        want_mod = segs[0]
        for s in segs[1:-1]:
            want_mod = want_mod.concat(dot).concat(s)
        claim = z3.And(ev.lift(env["class_name"]).eq(segs[-1]), ev.lift(env["module_name"]).eq(segs[-2]),
                       ev.lift(env["module_path"]).eq(want_path), python_module_path.eq(want_mod), z3.Not(ev.raise_guard()))
        job.prove(f"path_arithmetic[{label}]", wf[: 2 * len(segs)] if False else wf, claim,
                  decode=lambda m, segs=segs: {"qname": ".".join(show(m, s) for s in segs)},
                  replay=lambda i: _replay_paths(i["qname"]),
                  bound=f"qualified names of {len(segs)} segments, each an ASCII identifier up to {n} characters")
    return job.result()


def _run_real(qname: str):
    from vlib.gapi import FakePath, install_fake_fs

    fs = install_fake_fs()
    GS._create_outside_package_class(qname, FakePath("/out"), GS.NamingConvention.PYTHON, set())
    return fs


def _replay_paths(qname: str):
    fs = _run_real(qname)
    parts = qname.split(".")
    want = "/out/" + "/".join(parts[:-1]) + "/" + parts[-2] + ".sdsstub"
    text = fs.files.get(want, "")
    ok = want in fs.files and text.startswith("package " + ".".join(parts[:-1]) + "\n") and f"class {parts[-1]}\n" in text
    return (not ok), f"files {sorted(fs.files)} text {text!r}"


def _replay_raises(qname: str):
    try:
        _run_real(qname)
    except IndexError as e:
        return True, f"IndexError: {e}"
    return False, "no exception"
