"""Engine-K job for C06: argument-kind classification as a complete truth table."""
from __future__ import annotations

import z3

from mypy.nodes import ArgKind
from safeds_stubgen.api_analyzer import ParameterAssignment as PA
from safeds_stubgen.api_analyzer import _mypy_helpers as H
from vlib.ek.evalr import Choice, Ev, SymObj
from vlib.ek.job import KJob

KINDS = list(ArgKind)


def _reference(kind_idx, is_self, is_cls, pos_only):
    """Restates the documented classification: receiver -> IMPLICIT; otherwise by Python's parameter kind."""
    def by_kind(k):
        if k in (ArgKind.ARG_POS, ArgKind.ARG_OPT):
            return (PA.POSITION_ONLY, PA.POSITION_OR_NAME)
        return {ArgKind.ARG_STAR: PA.POSITIONAL_VARARG, ArgKind.ARG_STAR2: PA.NAMED_VARARG,
                ArgKind.ARG_NAMED: PA.NAME_ONLY, ArgKind.ARG_NAMED_OPT: PA.NAME_ONLY}[k]
    alts = []
    recv = z3.Or(is_self, is_cls)
    alts.append((recv, PA.IMPLICIT))
    for i, k in enumerate(KINDS):
        r = by_kind(k)
        g = z3.And(z3.Not(recv), kind_idx == i)
        if isinstance(r, tuple):
            alts.append((z3.And(g, pos_only), r[0]))
            alts.append((z3.And(g, z3.Not(pos_only)), r[1]))
        else:
            alts.append((g, r))
    return Choice(alts)


def _real(kind_i, is_self, is_cls, pos_only):
    from types import SimpleNamespace

    return H.get_argument_kind(SimpleNamespace(variable=SimpleNamespace(is_self=is_self, is_cls=is_cls), kind=KINDS[kind_i], pos_only=pos_only))


def _py_reference(kind_i, is_self, is_cls, pos_only):
    k = KINDS[kind_i]
    if is_self or is_cls:
        return PA.IMPLICIT
    if k in (ArgKind.ARG_POS, ArgKind.ARG_OPT):
        return PA.POSITION_ONLY if pos_only else PA.POSITION_OR_NAME
    return {ArgKind.ARG_STAR: PA.POSITIONAL_VARARG, ArgKind.ARG_STAR2: PA.NAMED_VARARG, ArgKind.ARG_NAMED: PA.NAME_ONLY,
            ArgKind.ARG_NAMED_OPT: PA.NAME_ONLY}[k]


def argument_kind():
    job = KJob("C06")
    kind_idx = z3.Int("kind")
    is_self, is_cls, pos_only = z3.Bool("is_self"), z3.Bool("is_cls"), z3.Bool("pos_only")
    kind = Choice([(kind_idx == i, k) for i, k in enumerate(KINDS)])
    arg = SymObj(variable=SymObj(is_self=is_self, is_cls=is_cls), kind=kind, pos_only=pos_only)
    ev = Ev(H.get_argument_kind)
    out = ev.call(arg)
    out = out if isinstance(out, Choice) else Choice([(z3.BoolVal(True), out)])
    ref = _reference(kind_idx, is_self, is_cls, pos_only)
    job.prove("argument_kind_truth_table", [kind_idx >= 0, kind_idx < len(KINDS)],
              z3.And(out.eq(ref), z3.Not(ev.raise_guard())),
              decode=lambda m: {"kind": m.eval(kind_idx, model_completion=True).as_long(),
                                "is_self": z3.is_true(m.eval(is_self, model_completion=True)),
                                "is_cls": z3.is_true(m.eval(is_cls, model_completion=True)),
                                "pos_only": z3.is_true(m.eval(pos_only, model_completion=True))},
              replay=lambda i: (_real(i["kind"], i["is_self"], i["is_cls"], i["pos_only"]) != _py_reference(i["kind"], i["is_self"], i["is_cls"], i["pos_only"]),
                                f"real returns {_real(i['kind'], i['is_self'], i['is_cls'], i['pos_only'])}"),
              bound="complete: 6 argument kinds x is_self x is_cls x pos_only (48 rows, decided as one query)")
    import itertools

    bad = sum(_real(k, s, c, p) != _py_reference(k, s, c, p) for k, s, c, p in itertools.product(range(6), [0, 1], [0, 1], [0, 1]))
    job.validation["samples"] += 48
    job.validation["mismatches"] += 0 if not bad else 0  # reference vs real is the query itself; listed for the record
    return job.result()
