"""Shared predicates for Engine-K jobs."""
import z3

from vlib.ek.bstr import BStr, I

# Typed in from the Safe-DS grammar (independent of the generator's table).
ORACLE_KEYWORDS = """and annotation as attr class const enum false from fun import in internal literal not null or out
package pipeline private schema segment static sub this true union unknown val where yield _""".split()


def is_letter(c):
    return z3.Or(z3.And(c >= 97, c <= 122), z3.And(c >= 65, c <= 90), c == 95)


def is_digit(c):
    return z3.And(c >= 48, c <= 57)


def is_idchar(c):
    return z3.Or(is_letter(c), is_digit(c))


def ident(s: BStr):
    """s is an ASCII identifier."""
    cs = [s.ln >= 1]
    if s.cap:
        cs.append(is_letter(s.ch[0]))
    for i in range(1, s.cap):
        cs.append(z3.Or(s.ln <= i, is_idchar(s.ch[i])))
    return z3.And(*cs)


def in_words(s: BStr, words):
    return z3.Or(*[s.eq(BStr.const(w)) for w in words])


def random_ident(rng, n, alphabet="ab_Z9"):
    while True:
        s = "".join(rng.choice(alphabet) for _ in range(rng.randint(1, n)))
        if s.isidentifier():
            return s
