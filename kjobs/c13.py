"""Engine-K jobs for C13: documentation text reaches the comment line for line."""
from __future__ import annotations

import ast

import z3

from safeds_stubgen.stubs_generator._stub_string_generator import StubsStringGenerator
from vlib.ek.bstr import BStr, GList, I, show
from vlib.ek.evalr import Ev, find_nodes
from vlib.ek.job import THOROUGH, KJob, concrete, selftest

fn = StubsStringGenerator._create_docstring_description_part


def _py_reference(d: str, ind: str):
    lines = d.strip("\n").split("\n")
    out = []
    for i, ln in enumerate(lines):
        out.append(ln if i == 0 else (f"{ind} * {ln}" if ln else f"{ind} *"))
    return "\n".join(out) + "\n"


def description_lines():
    """Every line of the description (leading/trailing newlines removed) is the corresponding comment line with the
    ' * ' prefix removed - line for line, none lost, none added."""
    job = KJob("C13")
    n = 6 if THOROUGH else 5
    alphabet = [ord(c) for c in "ab \n*"]
    d = BStr.var("d", n)
    for ind in ("", "    "):
        BStr.side = []
        ev = Ev(fn)
        out = ev.call(d, ind)
        stripped = d.strip("\n")
        src_lines = stripped.split("\n")
        out_body = out.pyslice(None, I(-1))  # without the final newline
        out_lines = out_body.split("\n")
        claims = [out.endswith(BStr.const("\n")), out_lines.length() == src_lines.length(), z3.Not(ev.raise_guard())]
        pre_full, pre_empty = BStr.const(f"{ind} * "), BStr.const(f"{ind} *")
        for i, ((gs, s), (go, o)) in enumerate(zip(src_lines.items, out_lines.items)):
            if i == 0:
                want = o.eq(s)
            else:
                want = z3.If(s.ln == 0, o.eq(pre_empty), o.eq(pre_full.concat(s)))
            claims.append(z3.Implies(gs, z3.And(go, want)))
        job.prove(f"line_for_line[indent={len(ind)}]", [d.wf(alphabet)], z3.And(*claims),
                  decode=lambda m, ind=ind: {"d": show(m, d), "indent": ind},
                  replay=lambda i: (fn(i["d"], i["indent"]) != _py_reference(i["d"], i["indent"]), repr(fn(i["d"], i["indent"]))),
                  bound=f"all strings over {{a,b,space,newline,*}} up to {n} characters",
                  side=list(BStr.side))
    def build(node):
        BStr.side = []
        e = Ev(node=node, globs=fn.__globals__)
        o = e.lift(e.call(d, ""))
        st = d.strip("\n")
        return [d.wf(alphabet)], z3.And(o.endswith(BStr.const("\n")), o.pyslice(None, I(-1)).split("\n").length() == st.split("\n").length(),
                                        z3.Not(e.raise_guard()))

    selftest(job, "line_for_line", fn, build)
    rng = job.rng
    samples = [("".join(rng.choice("ab \n") for _ in range(rng.randint(0, n))), rng.choice(["", "    "])) for _ in range(100)]
    job.validate("_create_docstring_description_part", lambda s, i: concrete(Ev(fn).call(BStr.const(s), i)), fn, samples)
    return job.result()


def _real_example(call, line: str) -> str:
    """The replace expression of the current source, compiled and evaluated natively."""
    return eval(compile(ast.Expression(call), "<example replace>", "eval"), {"example_part": line})


def example_lines():
    """An example's code lines ('>>> ' / '... ' lines) appear unchanged apart from the prompt -> '//' substitution."""
    job = KJob("C13")
    n = 8 if THOROUGH else 7
    sds = StubsStringGenerator._create_sds_docstring
    calls = find_nodes(sds, lambda nd: isinstance(nd, ast.Call) and isinstance(nd.func, ast.Attribute) and nd.func.attr == "replace"
                       and isinstance(nd.func.value, ast.Name) and nd.func.value.id == "example_part")
    if len(calls) != 2:
        raise RuntimeError(f"expected two example_part.replace(...) calls, found {len(calls)}")
    line = BStr.var("line", n)
    alphabet = [ord(c) for c in ">. ax=[]"]
    ev = Ev(node=ast.parse("def f(): pass").body[0], globs=sds.__globals__)
    for call in calls:
        old = call.args[0].value
        out = ev.lift(ev.expr(call, {"example_part": line}))
        prompt = BStr.const(old)
        want = BStr.const("//").concat(line.pyslice(I(len(old)), None))
        rest_has = line.pyslice(I(len(old)), None).contains(prompt)
        job.prove(f"only_the_prompt_is_replaced[{old}]", [line.wf(alphabet), line.startswith(prompt)], out.eq(want),
                  decode=lambda m: {"line": show(m, line)},
                  replay=lambda i, old=old, call=call: (_real_example(call, i["line"]) != "//" + i["line"][len(old):], repr(_real_example(call, i["line"]))),
                  bound=f"all lines over {{>,.,space,a,x,=,[,]}} up to {n} characters that start with the prompt",
                  regions={"example_line_contains_second_prompt": (rest_has,
                           f"an example line that contains '{old}' again after its prompt (e.g. the Ellipsis literal in '... x = [...]') has "
                           "every occurrence replaced by '//': the code line is altered")})
    return job.result()
