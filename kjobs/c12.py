"""Engine-K job for C12: ids are built from the declaration stack."""
from __future__ import annotations

import z3

from kjobs.common import ident
from safeds_stubgen.api_analyzer._api import Class, Function, Module
from safeds_stubgen.api_analyzer._ast_visitor import MyPyAstVisitor
from safeds_stubgen.docstring_parsing import ClassDocstring, FunctionDocstring
from vlib.ek.bstr import BStr, show
from vlib.ek.evalr import Ev, SymObj
from vlib.ek.job import THOROUGH, KJob, concrete

fn = MyPyAstVisitor._create_id_from_stack


def _stack(mod_id, cname, fname):
    m = Module(id_=mod_id, name="m")
    c = Class(id="x", name=cname, superclasses=[], is_public=True, docstring=ClassDocstring())
    f = Function(id="y", name=fname, docstring=FunctionDocstring(), is_public=True, is_static=False, is_class_method=False,
                 is_property=False, result_docstrings=[])
    return [m, c, f, []]  # the stack may also hold the list of pending assignments, which contributes no segment


def _real(mod_id, cname, fname, name):
    from types import SimpleNamespace

    return fn(SimpleNamespace(_MyPyAstVisitor__declaration_stack=_stack(mod_id, cname, fname)), name)


def id_from_stack():
    job = KJob("C12")
    n = 5 if THOROUGH else 4
    mod_id, cname, fname, name = BStr.var("mid", n + 2), BStr.var("c", n), BStr.var("f", n), BStr.var("n", n)
    wf = [mod_id.wf([ord(c) for c in "ab/"], min_len=1), cname.wf(), fname.wf(), name.wf(), ident(cname), ident(fname), ident(name)]
    ev = Ev(fn)
    out = ev.lift(ev.call(SymObj(cls=MyPyAstVisitor, __declaration_stack=_stack(mod_id, cname, fname)), name))
    slash = BStr.const("/")
    want = mod_id.concat(slash).concat(cname).concat(slash).concat(fname).concat(slash).concat(name)
    job.prove("id_is_owner_path_slash_name", wf, z3.And(out.eq(want), z3.Not(ev.raise_guard())),
              decode=lambda m: {"module_id": show(m, mod_id), "class": show(m, cname), "function": show(m, fname), "name": show(m, name)},
              replay=lambda i: (_real(i["module_id"], i["class"], i["function"], i["name"]) != f"{i['module_id']}/{i['class']}/{i['function']}/{i['name']}",
                                _real(i["module_id"], i["class"], i["function"], i["name"])),
              bound=f"module id <= {n + 2} chars over {{a,b,/}}, class/function/declaration names: ASCII identifiers <= {n} chars; "
                    "stack = [module, class, function, pending-assignment list]")
    # injective: two declarations with different (class, function, name) under one module get different ids
    c2, f2, n2 = BStr.var("c2", n), BStr.var("f2", n), BStr.var("n2", n)
    ev2 = Ev(fn)
    out2 = ev2.lift(ev2.call(SymObj(cls=MyPyAstVisitor, __declaration_stack=_stack(mod_id, c2, f2)), n2))
    differ = z3.Or(z3.Not(cname.eq(c2)), z3.Not(fname.eq(f2)), z3.Not(name.eq(n2)))
    job.prove("ids_injective_on_identifier_names", [*wf, c2.wf(), f2.wf(), n2.wf(), ident(c2), ident(f2), ident(n2), differ], z3.Not(out.eq(out2)),
              decode=lambda m: {"a": [show(m, cname), show(m, fname), show(m, name)], "b": [show(m, c2), show(m, f2), show(m, n2)], "module_id": show(m, mod_id)},
              replay=lambda i: (_real(i["module_id"], *i["a"]) == _real(i["module_id"], *i["b"]), "same id"),
              bound="as above; names contain no '/' (identifiers)")
    job.validate("_create_id_from_stack", lambda a, b, c, d: concrete(Ev(fn).call(SymObj(cls=MyPyAstVisitor, __declaration_stack=_stack(a, b, c)), BStr.const(d))),
                 _real, [("pkg/m", "K", "f", "x"), ("a", "B", "__init__", "y"), ("a/b/c", "C_1", "g", "_z")])
    return job.result()
