"""Engine-K jobs for C02 (and the kernel facts C09 reuses)."""
from __future__ import annotations

import ast
import copy

import z3

from kjobs.common import ORACLE_KEYWORDS, ident, in_words, is_digit, random_ident
from safeds_stubgen.stubs_generator import _helper as H
from vlib.ek.bstr import BStr, I, ite_str, show
from vlib.ek.evalr import Ev
from vlib.ek.job import THOROUGH, KJob, concrete, selftest

NC = H.NamingConvention


def keyword_kernel():
    """_replace_if_safeds_keyword: every identifier that is a Safe-DS keyword is back-quoted, all others unchanged."""
    job = KJob("C02")
    n = 12 if THOROUGH else 11
    x = BStr.var("x", n)
    fn = H._replace_if_safeds_keyword
    ev = Ev(fn)
    out = ev.call(x)
    kw = in_words(x, ORACLE_KEYWORDS)
    quoted = BStr.const("`").concat(x).concat(BStr.const("`"))
    claim = z3.And(z3.Implies(kw, out.eq(quoted)), z3.Implies(z3.Not(kw), out.eq(x)), z3.Not(ev.raise_guard()))
    job.prove(
        "keyword_escape", [x.wf(), ident(x)], claim,
        decode=lambda m: {"x": show(m, x)},
        replay=lambda i: (fn(i["x"]) != (f"`{i['x']}`" if i["x"] in ORACLE_KEYWORDS else i["x"]), f"real returns {fn(i['x'])!r}"),
        bound=f"all ASCII identifiers up to {n} characters (longest keyword: 10); 33 keywords of the oracle list",
    )
    # vacuity / sensitivity self-test: the same query on a mutant of the real AST with one table entry dropped
    tree = copy.deepcopy(ev.node)
    sets = [nd for nd in ast.walk(tree) if isinstance(nd, ast.Set)]
    killed = 0
    for drop in (0, len(sets[0].elts) // 2, len(sets[0].elts) - 1):
        t2 = copy.deepcopy(tree)
        s2 = [nd for nd in ast.walk(t2) if isinstance(nd, ast.Set)][0]
        del s2.elts[drop]
        ev2 = Ev(node=t2, globs=fn.__globals__)
        out2 = ev2.call(x)
        sol = z3.Solver()
        sol.add(x.wf(), ident(x), z3.Not(z3.And(z3.Implies(kw, out2.eq(quoted)), z3.Implies(z3.Not(kw), out2.eq(x)))))
        killed += sol.check() == z3.sat
    job.queries.append({"id": "keyword_escape_selftest", "verdict": "holds" if killed == 3 else "harness_error",
                        "detail": f"{killed}/3 keyword-dropping mutants of the real AST detected", "seconds": 0,
                        "bound": "self-test"})
    rng = job.rng
    samples = [(w,) for w in ORACLE_KEYWORDS] + [(random_ident(rng, 8, "abfuntrel_"),) for _ in range(100)]
    job.validate("_replace_if_safeds_keyword", lambda s: concrete(Ev(fn).call(BStr.const(s))), fn, samples)
    return job.result()


def _core_regions(x: BStr):
    lead = x.lead_count(lambda c: c == 95)
    empty_core = lead == x.ln
    digit_core = z3.And(lead < x.ln, is_digit(x.at(lead)))
    return {
        "conv_core_empty": (empty_core, "identifier consisting only of underscores converts to the empty string"),
        "conv_core_digit": (digit_core, "identifier whose first non-underscore character is a digit converts to a name starting with a digit"),
    }


def convert_legal():
    """_convert_name_to_convention(x, SAFE_DS, is_class) is a legal identifier for every legal ASCII identifier."""
    job = KJob("C02")
    n = 10 if THOROUGH else 8
    fn = H._convert_name_to_convention
    x = BStr.var("x", n)
    for is_class in (False, True):
        ev = Ev(fn)
        out = ev.call(x, NC.SAFE_DS, is_class)
        claim = z3.And(ident(out), z3.Not(ev.raise_guard()))
        job.prove(
            f"convert_legal[is_class={is_class}]", [x.wf(), ident(x)], claim,
            decode=lambda m: {"x": show(m, x), "is_class": is_class},
            replay=lambda i: ((not fn(i["x"], NC.SAFE_DS, i["is_class"]).isidentifier()), f"real returns {fn(i['x'], NC.SAFE_DS, i['is_class'])!r}"),
            bound=f"all ASCII identifiers up to {n} characters",
            regions=_core_regions(x),
        )
    def build(node):
        ev = Ev(node=node, globs=fn.__globals__)
        o = ev.lift(ev.call(x, NC.SAFE_DS, False))
        reg = _core_regions(x)
        return [x.wf(), ident(x), *[z3.Not(p) for p, _ in reg.values()]], z3.And(ident(o), z3.Not(ev.raise_guard()))

    selftest(job, "convert_legal", fn, build)
    rng = job.rng
    samples = _test_inputs_convert() + [(random_ident(rng, n), NC.SAFE_DS, rng.random() < 0.5) for _ in range(150)]
    job.validate("_convert_name_to_convention", lambda s, c, k: concrete(Ev(fn).call(BStr.const(s), c, k)), fn, samples)
    return job.result()


def _test_inputs_convert():
    """The inputs the repository's own tests use for this function (parsed out of tests/ with ast)."""
    import pathlib

    out = []
    import os

    p = pathlib.Path(os.environ.get("VERIF_REPO") or "/repo") / "tests/safeds_stubgen/stubs_generator/test_generate_stubs.py"
    try:
        tree = ast.parse(p.read_text())
    except OSError:
        return out
    for node in ast.walk(tree):
        if isinstance(node, ast.Tuple) and len(node.elts) == 4 and isinstance(node.elts[0], ast.Constant) \
                and isinstance(node.elts[0].value, str) and isinstance(node.elts[3], ast.Constant) \
                and isinstance(node.elts[3].value, bool) and isinstance(node.elts[1], ast.Constant):
            conv = NC.PYTHON if "PYTHON" in ast.dump(node.elts[2]) else NC.SAFE_DS
            if node.elts[0].value.isascii():
                out.append((node.elts[0].value, conv, node.elts[3].value))
    return out


def _valid_string_token(t: BStr):
    """t is a properly closed string token: opening quote, closing quote, no unescaped quote inside, closing quote
    not escaped by a backslash (which characters may follow a backslash is deliberately not judged)."""
    # scan the inner characters with an 'escaped' flag
    esc = z3.BoolVal(False)
    ok = z3.And(t.ln >= 2, t.ch[0] == 34, t.at(t.ln - 1) == 34)
    for i in range(1, t.cap):
        inner = z3.And(t.ln - 1 > i)  # position i is strictly inside the quotes
        c = t.ch[i]
        bad = z3.And(inner, z3.Not(esc), c == 34)
        ok = z3.And(ok, z3.Not(bad))
        esc = z3.And(inner, z3.Not(esc), c == 92)
    return z3.And(ok, z3.Not(esc))  # a trailing lone backslash would escape the closing quote


def _needs_escape(s: BStr):
    return z3.Or(*[z3.And(s.ln > i, z3.Or(s.ch[i] == 34, s.ch[i] == 92)) for i in range(s.cap)])


def string_literals():
    """String defaults and Literal["..."] values are emitted as well-formed string tokens."""
    from safeds_stubgen.api_analyzer._ast_visitor import MyPyAstVisitor
    from safeds_stubgen.stubs_generator._stub_string_generator import StubsStringGenerator
    from vlib.ek.evalr import find_nodes

    job = KJob("C02")
    n = 12 if THOROUGH else 8
    s = BStr.var("s", n)
    region = {"string_needs_escape": (_needs_escape(s), 'a string value containing a double quote or a backslash is emitted unescaped')}

    # (a) the f'"{...}"' assigned to default_value in _get_parameter_type_and_default_value (found by pattern)
    fn = MyPyAstVisitor._get_parameter_type_and_default_value
    cands = find_nodes(fn, lambda nd: isinstance(nd, ast.Assign) and isinstance(nd.value, ast.JoinedStr)
                       and isinstance(nd.targets[0], ast.Name) and nd.targets[0].id == "default_value")
    if len(cands) != 1:
        raise RuntimeError(f"expected one string-default wrapping expression, found {len(cands)}")
    var = [x for x in ast.walk(cands[0].value) if isinstance(x, ast.Name)][0].id
    ev = Ev(node=ast.parse("def f(): pass").body[0], globs=fn.__globals__)
    out = ev.lift(ev.expr(cands[0].value, {var: s}))
    src = ast.unparse(cands[0].value)
    job.prove(
        "string_default_token", [s.wf()], _valid_string_token(out),
        decode=lambda m: {"s": show(m, s)},
        replay=lambda i: (_py_invalid(eval(src, {var: i["s"]})), f"wrapping expression {src} gives {eval(src, {var: i['s']})!r}"),
        bound=f"all 7-bit ASCII strings up to {n} characters", regions=region,
    )
    # (b) literal<"..."> rendering of str values in _create_type_string (found by pattern: types.append(f'"{x}"'))
    fn2 = StubsStringGenerator._create_type_string
    cands2 = find_nodes(fn2, lambda nd: isinstance(nd, ast.JoinedStr) and any(
        isinstance(v, ast.FormattedValue) and isinstance(v.value, ast.Name) and v.value.id == "literal_type" for v in nd.values)
        and any(isinstance(v, ast.Constant) and '"' in v.value for v in nd.values))
    if len(cands2) != 1:
        raise RuntimeError(f"expected one literal string rendering, found {len(cands2)}")
    out2 = ev.lift(ev.expr(cands2[0], {"literal_type": s}))
    src2 = ast.unparse(cands2[0])
    job.prove(
        "literal_string_token", [s.wf()], _valid_string_token(out2),
        decode=lambda m: {"s": show(m, s)},
        replay=lambda i: (_py_invalid(eval(src2, {"literal_type": i["s"]})), f"{src2} gives {eval(src2, {'literal_type': i['s']})!r}"),
        bound=f"all 7-bit ASCII strings up to {n} characters", regions=region,
    )
    # (c) @PythonName("...") for identifiers: always a well-formed token
    x = BStr.var("x", n)
    out3 = Ev(H._create_name_annotation).call(x)
    pre = BStr.const('@PythonName(')
    tok = out3.pyslice(I(len("@PythonName(")), I(-1))
    job.prove(
        "python_name_annotation", [x.wf(), ident(x)],
        z3.And(out3.startswith(pre), out3.endswith(BStr.const(")")), _valid_string_token(tok)),
        decode=lambda m: {"x": show(m, x)},
        replay=lambda i: (H._create_name_annotation(i["x"]) != f'@PythonName("{i["x"]}")', H._create_name_annotation(i["x"])),
        bound=f"all ASCII identifiers up to {n} characters",
    )
    return job.result()


def _py_invalid(tok: str) -> bool:
    import re

    return re.fullmatch(r'"(?:\\.|[^"\\])*"', tok, re.S) is None


def doc_comment():
    """The documentation comment body never closes the comment early."""
    from safeds_stubgen.stubs_generator._stub_string_generator import StubsStringGenerator

    job = KJob("C02")
    n = 10 if THOROUGH else 7
    fn = StubsStringGenerator._create_docstring_description_part
    alphabet = [ord(c) for c in "ab */\n>."]
    d = BStr.var("d", n)
    has_close = d.contains(BStr.const("*/"))
    for ind in ("", "    "):
        BStr.side = []
        ev = Ev(fn)
        out = ev.call(d, ind)
        body = BStr.const(f"{ind}/**\n{ind} * ").concat(out)  # what the callers put in front
        claim = z3.And(z3.Not(body.pyslice(I(len(ind) + 3), None).contains(BStr.const("*/"))), z3.Not(ev.raise_guard()))
        job.prove(
            f"doc_comment_not_closed[indent={len(ind)}]", [d.wf(alphabet)], claim,
            decode=lambda m: {"d": show(m, d), "indent": ind},
            replay=lambda i: ("*/" in fn(i["d"], i["indent"]), f"real returns {fn(i['d'], i['indent'])!r}"),
            bound=f"all strings over {{a,b,space,*,/,newline,>,.}} up to {n} characters",
            regions={"doc_contains_comment_close": (has_close, "a description containing '*/' closes the documentation comment early")},
        )
    rng = job.rng
    samples = [("".join(rng.choice("ab */\n") for _ in range(rng.randint(0, n))), rng.choice(["", "    "])) for _ in range(120)]
    job.validate("_create_docstring_description_part", lambda s, i: concrete(Ev(fn).call(BStr.const(s), i)), fn, samples)
    return job.result()
