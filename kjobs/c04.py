"""Engine-K jobs for C04: the internal-name predicate and the publicity decision of the visitor."""
from __future__ import annotations

import z3

from kjobs.common import ident, random_ident
from safeds_stubgen import _helpers as HP
from safeds_stubgen.api_analyzer._api import Class, Function, Module
from safeds_stubgen.api_analyzer._ast_visitor import MyPyAstVisitor
from safeds_stubgen.docstring_parsing import ClassDocstring, FunctionDocstring
from vlib.ek.bstr import BStr, I, show
from vlib.ek.evalr import Ev, SymObj
from vlib.ek.job import THOROUGH, KJob, concrete, selftest


def internal_predicate():
    job = KJob("C04")
    n = 12 if THOROUGH else 8
    x = BStr.var("x", n)
    ev = Ev(HP.is_internal)
    out = ev.call(x)
    job.prove("is_internal_iff_leading_underscore", [x.wf()], out == z3.And(x.ln > 0, x.ch[0] == 95),
              decode=lambda m: {"x": show(m, x)},
              replay=lambda i: (HP.is_internal(i["x"]) != i["x"].startswith("_"), repr(HP.is_internal(i["x"]))),
              bound=f"all 7-bit ASCII strings up to {n} characters")
    job.validate("is_internal", lambda s: concrete(Ev(HP.is_internal).call(BStr.const(s))), HP.is_internal,
                 [("",), ("_",), ("a",), ("__a__",), ("a_",), ("_a",)])
    return job.result()


def _private_name(x: BStr):
    """PRIVATE(name) per the statement: leading underscore and not a dunder name."""
    lead = z3.And(x.ln > 0, x.ch[0] == 95)
    dunder = z3.And(x.ln >= 4, x.ch[0] == 95, x.ch[1] == 95, x.at(x.ln - 1) == 95, x.at(x.ln - 2) == 95)
    return z3.And(lead, z3.Not(dunder))


def _py_private(name: str) -> bool:
    return name.startswith("_") and not (len(name) >= 4 and name.startswith("__") and name.endswith("__"))


def _no_reexport(*a, **k):
    return None


_no_reexport._ek_stub = True


def _visitor(stack, fullname: str):
    return SymObj(cls=MyPyAstVisitor, mypy_file=SymObj(fullname=fullname, name=fullname.split(".")[-1]),
                  __declaration_stack=stack, _check_publicity_in_reexports=_no_reexport)


def _real_is_public(stack, name, qname):
    """Run the real method natively with the same stub for the re-export lookup."""
    from types import SimpleNamespace

    v = MyPyAstVisitor.__new__(MyPyAstVisitor)
    v.mypy_file = SimpleNamespace(fullname="pkg.mod", name="mod")
    v._MyPyAstVisitor__declaration_stack = stack
    v._check_publicity_in_reexports = _no_reexport
    return MyPyAstVisitor._is_public(v, name, qname)


def publicity_decision():
    """_is_public(name, qname) with the re-export lookup stubbed to 'not re-exported': for a module-level declaration,
    a class member and a constructor-assigned attribute."""
    job = KJob("C04")
    n = 6 if THOROUGH else 5
    fn = MyPyAstVisitor._is_public
    name = BStr.var("n", n)
    seg1, seg2 = BStr.var("s1", n), BStr.var("s2", n)
    mod = Module(id_="pkg/mod", name="mod")
    wf = [name.wf(), seg1.wf(), seg2.wf(), ident(name), ident(seg1), ident(seg2)]
    dot = BStr.const(".")
    regions = {"single_underscore_trailing_dunder": (
        z3.And(_private_name(name), name.ln >= 2, name.at(name.ln - 1) == 95, name.at(name.ln - 2) == 95),
        "a name with a single leading underscore that ends in two underscores (e.g. '_x__') is classified public")}

    # (1) module-level declaration: qname = s1.s2.name ; public <=> not PRIVATE(name) and no private path segment
    qname = seg1.concat(dot).concat(seg2).concat(dot).concat(name)
    ev = Ev(fn)
    out = ev.call(_visitor([mod], "pkg.mod"), name, qname)
    seg_private = z3.Or(seg1.ch[0] == 95, seg2.ch[0] == 95)
    job.prove("module_level", wf, z3.And(out == z3.And(z3.Not(_private_name(name)), z3.Not(seg_private)), z3.Not(ev.raise_guard())),
              decode=lambda m: {"name": show(m, name), "s1": show(m, seg1), "s2": show(m, seg2)},
              replay=lambda i: (_real_is_public([mod], i["name"], f"{i['s1']}.{i['s2']}.{i['name']}")
                                != ((not _py_private(i["name"])) and not i["s1"].startswith("_") and not i["s2"].startswith("_")),
                                f"real returns {_real_is_public([mod], i['name'], i['s1'] + '.' + i['s2'] + '.' + i['name'])}"),
              bound=f"name and two path segments: ASCII identifiers up to {n} characters; re-export lookup stubbed to None",
              regions=regions)

    # (2) class member: parent class with symbolic publicity, consistent with its name (no re-export)
    parent_public = z3.Bool("parent_public")
    cls = Class(id="pkg/mod/K", name="K", superclasses=[], is_public=parent_public, docstring=ClassDocstring())
    qname2 = seg1.concat(dot).concat(seg2).concat(dot).concat(name)  # s1 = module, s2 = class name
    ev2 = Ev(fn)
    out2 = ev2.call(_visitor([mod, cls], "pkg.mod"), name, qname2)
    consistent = parent_public == z3.And(seg1.ch[0] != 95, seg2.ch[0] != 95)
    job.prove("class_member", [*wf, consistent],
              z3.And(out2 == z3.And(z3.Not(_private_name(name)), parent_public), z3.Not(ev2.raise_guard())),
              decode=lambda m: {"name": show(m, name), "s1": show(m, seg1), "s2": show(m, seg2),
                                "parent_public": z3.is_true(m.eval(parent_public, model_completion=True))},
              replay=lambda i: _replay_member(i, mod),
              bound=f"member name, module and class segment: ASCII identifiers up to {n} characters; parent publicity "
                    "symbolic and consistent with the path (no re-export)", regions=regions)

    # (3) constructor-assigned attribute: stack = module, class, __init__
    init = Function(id="pkg/mod/K/__init__", name="__init__", docstring=FunctionDocstring(), is_public=parent_public,
                    is_static=False, is_class_method=False, is_property=False, result_docstrings=[])
    ev3 = Ev(fn)
    out3 = ev3.call(_visitor([mod, cls, init], "pkg.mod"), name, qname2)
    job.prove("constructor_attribute", [*wf, consistent],
              z3.And(out3 == z3.And(z3.Not(_private_name(name)), parent_public), z3.Not(ev3.raise_guard())),
              decode=lambda m: {"name": show(m, name), "s1": show(m, seg1), "s2": show(m, seg2),
                                "parent_public": z3.is_true(m.eval(parent_public, model_completion=True)), "ctor": True},
              replay=lambda i: _replay_member(i, mod),
              bound="as class_member, declaration stack = [module, class, __init__]", regions=regions)

    def build(node):
        e = Ev(node=node, globs=fn.__globals__)
        o = e.call(_visitor([mod], "pkg.mod"), name, qname)
        reg = z3.Not(regions["single_underscore_trailing_dunder"][0])
        return [*wf, reg], z3.And(o == z3.And(z3.Not(_private_name(name)), z3.Not(seg_private)), z3.Not(e.raise_guard()))

    selftest(job, "module_level", fn, build)
    rng = job.rng
    samples = []
    for _ in range(60):
        nm = rng.choice(["a", "_a", "__a__", "_a__", "__a", "__init__", "a_"])
        s1, s2 = rng.choice(["p", "_p"]), rng.choice(["q", "_q", "Q"])
        samples.append((nm, f"{s1}.{s2}.{nm}"))
    job.validate("_is_public[module]", lambda nm, q: concrete(Ev(fn).call(_visitor([mod], "pkg.mod"), BStr.const(nm), BStr.const(q))),
                 lambda nm, q: _real_is_public([mod], nm, q), samples)
    for pub in (True, False):
        c2 = Class(id="pkg/mod/K", name="K", superclasses=[], is_public=pub, docstring=ClassDocstring())
        job.validate("_is_public[class]", lambda nm, q: concrete(Ev(fn).call(_visitor([mod, c2], "pkg.mod"), BStr.const(nm), BStr.const(q))),
                     lambda nm, q: _real_is_public([mod, c2], nm, q), samples[:30])
    return job.result()


def _replay_member(i, mod):
    c = Class(id="pkg/mod/K", name="K", superclasses=[], is_public=i["parent_public"], docstring=ClassDocstring())
    stack = [mod, c]
    if i.get("ctor"):
        stack.append(Function(id="pkg/mod/K/__init__", name="__init__", docstring=FunctionDocstring(), is_public=i["parent_public"],
                              is_static=False, is_class_method=False, is_property=False, result_docstrings=[]))
    got = _real_is_public(stack, i["name"], f"{i['s1']}.{i['s2']}.{i['name']}")
    want = (not _py_private(i["name"])) and i["parent_public"]
    return got != want, f"real returns {got}, reference {want}"
