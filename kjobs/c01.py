"""Engine-K job for C01: index arithmetic that can raise.

`_create_outside_package_class` indexes the module part of a qualified name; it is only ever called with the names that
`_add_to_imports` put into `classes_outside_package`. The job evaluates `_add_to_imports` symbolically for a reference
that matches no class of the package (the only way into that set), records every value added to the set together with
its path condition, and proves that the path arithmetic of `_create_outside_package_class` cannot raise on any of them.
"""
from __future__ import annotations

import ast

import z3

from kjobs.c10 import _prefix, _replay_raises

from safeds_stubgen.stubs_generator import _stub_string_generator as SG
from vlib.ek.bstr import BStr, _and, _or, show
from vlib.ek.evalr import Ev, SymObj, find_nodes
from vlib.ek.job import THOROUGH, KJob


class _SetRecorder:
    def __init__(self, ev) -> None:
        self.ev, self.items = ev, []
        self.add = self._add
        self._add.__func__._ek_stub = True  # type: ignore[attr-defined]

    def _add(self, value):
        self.items.append((self.ev.g, value))


def _mk_module_id(plain: BStr, actual: BStr):
    def _get_module_id(get_actual_id=False):
        return actual if get_actual_id else plain

    _get_module_id._ek_stub = True  # type: ignore[attr-defined]
    return _get_module_id


def _native(qname: str, module_id: str):
    from types import SimpleNamespace

    g = SG.StubsStringGenerator.__new__(SG.StubsStringGenerator)
    g.api = SimpleNamespace(classes={}, reexport_map={})
    g.classes_outside_package, g.module_imports = set(), set()
    g._get_module_id = lambda get_actual_id=False: module_id  # noqa: ARG005
    g._add_to_imports(qname)
    return g


def _recorded(qname: str, module_id: str):
    g = _native(qname, module_id)
    return bool(g.classes_outside_package), repr(sorted(g.classes_outside_package))


def _replay_add_to_imports(qname: str, module_id: str):
    """Native run: real StubsStringGenerator._add_to_imports on a generator whose package has no classes, then the real
    _create_outside_package_class for everything it recorded."""
    try:
        g = _native(qname, module_id)
    except Exception as e:  # noqa: BLE001
        return True, f"_add_to_imports raised {type(e).__name__}: {e}"
    bad = []
    for q in sorted(g.classes_outside_package):
        r = _replay_raises(q)
        if r[0]:
            bad.append((q, r[1]))
    return (bool(bad), repr(bad))


def placeholder_paths():
    job = KJob("C01")
    n = 6 if THOROUGH else 4
    fn = SG.StubsStringGenerator._add_to_imports
    node = find_nodes(fn, lambda nd: isinstance(nd, ast.FunctionDef))[0]
    q = BStr.var("q", n)
    mid = BStr.var("m", 3)
    ev = Ev(node=node, globs=fn.__globals__)
    rec, imports = _SetRecorder(ev), _SetRecorder(ev)
    me = SymObj(api=SymObj(classes={}, reexport_map={}), classes_outside_package=rec, module_imports=imports,
                _get_module_id=_mk_module_id(mid, mid))
    ev.block(node.body, {"self": me, "import_qname": q}, z3.BoolVal(True))

    # every recorded name goes through the path arithmetic of the placeholder writer
    pfn, pnode, prefix = _prefix()
    bad = []
    for g, val in rec.items:
        sub = Ev(node=pnode, globs=pfn.__globals__)
        sub.block(prefix, {"class_path": val}, z3.BoolVal(True))
        bad.append(_and(g, sub.raise_guard()))
    job.prove("recorded_placeholder_names_never_raise", [q.wf(), mid.wf(), q.ln > 0],
              z3.Not(_or(*bad)) if bad else z3.BoolVal(True),
              decode=lambda m: {"qname": show(m, q), "module_id": show(m, mid)},
              replay=lambda i: _replay_add_to_imports(i["qname"], i["module_id"]),
              bound=f"every referenced qualified name up to {n} 7-bit characters (dots anywhere), module ids up to 3 "
                    f"characters, no class of the package matching the reference")
    job.reach("a_name_reaches_the_placeholder_set", [q.wf(), mid.wf(), q.ln > 0, _or(*[g for g, _ in rec.items])],
              decode=lambda m: {"qname": show(m, q), "module_id": show(m, mid)},
              confirm=lambda i: _recorded(i["qname"], i["module_id"]),
              bound="same")
    job.prove("add_to_imports_never_raises", [q.wf(), mid.wf(), q.ln > 0], z3.Not(ev.raise_guard()),
              decode=lambda m: {"qname": show(m, q), "module_id": show(m, mid)},
              replay=lambda i: _replay_add_to_imports(i["qname"], i["module_id"]),
              bound="same")
    return job.result()
