"""Engine-K job for C01: index arithmetic that can raise."""
from __future__ import annotations

from kjobs.c10 import outside_no_dot
from vlib.ek.job import THOROUGH, KJob


def placeholder_paths():
    job = KJob("C01")
    outside_no_dot(job, 6 if THOROUGH else 4)
    return job.result()
