"""Engine-K job for C11: the path/class matching heuristic used when building imports."""
from __future__ import annotations

import z3

from safeds_stubgen.stubs_generator._stub_string_generator import StubsStringGenerator
from vlib.ek.bstr import BStr, show
from vlib.ek.evalr import Ev, SymObj
from vlib.ek.job import THOROUGH, KJob, concrete

fn = StubsStringGenerator._is_path_connected_to_class


def _self():
    return SymObj(cls=StubsStringGenerator, api=SymObj(reexport_map={}))


def _real(path, class_path):
    from types import SimpleNamespace

    return fn(SimpleNamespace(api=SimpleNamespace(reexport_map={})), path, class_path)


def path_matching():
    job = KJob("C11")
    n = 7 if THOROUGH else 6
    alphabet = [ord(c) for c in "abX/"]
    path, cpath = BStr.var("p", n), BStr.var("c", n)

    def wellformed(s):  # non-empty segments separated by single slashes
        return z3.And(s.wf(alphabet, min_len=1), s.ch[0] != 47, s.at(s.ln - 1) != 47,
                      *[z3.Not(z3.And(s.ln > i + 1, s.ch[i] == 47, s.ch[i + 1] == 47)) for i in range(s.cap - 1)])

    ev = Ev(fn)
    out = ev.call(_self(), path, cpath)
    seg_suffix = z3.Or(cpath.eq(path), cpath.endswith(BStr.const("/").concat(path)))
    char_suffix_only = z3.And(cpath.endswith(path), z3.Not(seg_suffix))
    job.prove("path_connected_iff_segment_suffix", [wellformed(path), wellformed(cpath)],
              z3.And(out == seg_suffix, z3.Not(ev.raise_guard())),
              decode=lambda m: {"path": show(m, path), "class_path": show(m, cpath)},
              replay=lambda i: (_real(i["path"], i["class_path"]) != (i["class_path"] == i["path"] or i["class_path"].endswith("/" + i["path"])),
                                f"real returns {_real(i['path'], i['class_path'])}"),
              bound=f"paths up to {n} characters over {{a,b,X,/}} with non-empty segments; empty re-export map",
              regions={"char_suffix_not_segment_suffix": (char_suffix_only,
                       "a class path matches a reference if it merely ends with the same characters: 'pkg/u/XFoo' is taken for 'Foo'")})
    rng = job.rng
    pool = ["a", "b", "X", "aX", "a/b", "b/X", "a/aX", "X/a/b", "b/a"]
    samples = [(rng.choice(pool), rng.choice(pool)) for _ in range(80)]
    job.validate("_is_path_connected_to_class", lambda p, c: concrete(Ev(fn).call(_self(), BStr.const(p), BStr.const(c))), _real, samples)
    return job.result()


def reexport_key_matching():
    """_module_name_check (the closure inside _get_shortest_public_reexport): a re-export key is taken to mention the
    declaration `name` iff `name` is one of its dot-separated segments."""
    import ast

    from safeds_stubgen.stubs_generator import _helper as H
    from vlib.ek.bstr import GList
    from vlib.ek.evalr import find_nodes

    job = KJob("C11")
    n = 7 if THOROUGH else 6
    outer = H._get_shortest_public_reexport
    inner = find_nodes(outer, lambda nd: isinstance(nd, ast.FunctionDef) and nd.name == "_module_name_check")
    if len(inner) != 1:
        raise RuntimeError("closure _module_name_check not found")
    alphabet = [ord(c) for c in "fx."]
    text, name = BStr.var("t", n), BStr.var("nm", 2)

    def dotted(s):  # non-empty segments
        return z3.And(s.wf(alphabet, min_len=1), s.ch[0] != 46, s.at(s.ln - 1) != 46,
                      *[z3.Not(z3.And(s.ln > i + 1, s.ch[i] == 46, s.ch[i + 1] == 46)) for i in range(s.cap - 1)])

    ev = Ev(node=inner[0], globs=outer.__globals__)
    out = ev.truth(ev.call(text, **{}) if False else _call_closure(ev, inner[0], text, name))
    segs = text.split(".")
    is_segment = z3.Or(*[z3.And(g, s.eq(name)) for g, s in segs.items])
    name_ok = z3.And(name.wf([ord("f"), ord("x")], min_len=1))

    def real(t, nm):
        ns: dict = {}
        src = ast.unparse(inner[0])
        exec(src, {"is_module": False, "name": nm, "parent_name": ""}, ns)  # noqa: S102
        return bool(ns["_module_name_check"](t))

    job.prove("key_mentions_name_iff_segment", [dotted(text), name_ok], out == is_segment,
              decode=lambda m: {"text": show(m, text), "name": show(m, name)},
              replay=lambda i: (real(i["text"], i["name"]) != (i["name"] in i["text"].split(".")), f"closure returns {real(i['text'], i['name'])}"),
              bound=f"keys up to {n} characters over {{f,x,.}} with non-empty segments, names of 1-2 characters; declaration (not module) mode, no parent",
              regions={"name_fragments_in_two_segments": (
                  z3.And(z3.Not(is_segment), text.contains(BStr.const(".").concat(name)), text.contains(name.concat(BStr.const(".")))),
                  "a re-export key is taken to mention a declaration when '.<name>' and '<name>.' both occur somewhere in it, "
                  "e.g. key 'a.fx.yf.b' for the name 'f' - no segment equals the name")})
    return job.result()


def _call_closure(ev, node, text, name):
    """Evaluate the nested function with its free variables bound (is_module False, no parent)."""
    env = {"is_module": False, "name": name, "parent_name": "", node.args.args[0].arg: text, "is_wildcard": False}
    return ev.run_body(node.body, env)
