"""Engine-K job for C11: the path/class matching heuristic used when building imports."""
from __future__ import annotations

import z3

from safeds_stubgen.stubs_generator._stub_string_generator import StubsStringGenerator
from vlib.ek.bstr import BStr, show
from vlib.ek.evalr import Ev, SymObj
from vlib.ek.job import THOROUGH, KJob, concrete

fn = StubsStringGenerator._is_path_connected_to_class


def _self():
    return SymObj(cls=StubsStringGenerator, api=SymObj(reexport_map={}))


def _real(path, class_path):
    from types import SimpleNamespace

    return fn(SimpleNamespace(api=SimpleNamespace(reexport_map={})), path, class_path)


def path_matching():
    job = KJob("C11")
    n = 7 if THOROUGH else 6
    alphabet = [ord(c) for c in "abX/"]
    path, cpath = BStr.var("p", n), BStr.var("c", n)

    def wellformed(s):  # non-empty segments separated by single slashes
        return z3.And(s.wf(alphabet, min_len=1), s.ch[0] != 47, s.at(s.ln - 1) != 47,
                      *[z3.Not(z3.And(s.ln > i + 1, s.ch[i] == 47, s.ch[i + 1] == 47)) for i in range(s.cap - 1)])

    ev = Ev(fn)
    out = ev.call(_self(), path, cpath)
    seg_suffix = z3.Or(cpath.eq(path), cpath.endswith(BStr.const("/").concat(path)))
    char_suffix_only = z3.And(cpath.endswith(path), z3.Not(seg_suffix))
    job.prove("path_connected_iff_segment_suffix", [wellformed(path), wellformed(cpath)],
              z3.And(out == seg_suffix, z3.Not(ev.raise_guard())),
              decode=lambda m: {"path": show(m, path), "class_path": show(m, cpath)},
              replay=lambda i: (_real(i["path"], i["class_path"]) != (i["class_path"] == i["path"] or i["class_path"].endswith("/" + i["path"])),
                                f"real returns {_real(i['path'], i['class_path'])}"),
              bound=f"paths up to {n} characters over {{a,b,X,/}} with non-empty segments; empty re-export map",
              regions={"char_suffix_not_segment_suffix": (char_suffix_only,
                       "a class path matches a reference if it merely ends with the same characters: 'pkg/u/XFoo' is taken for 'Foo'")})
    rng = job.rng
    pool = ["a", "b", "X", "aX", "a/b", "b/X", "a/aX", "X/a/b", "b/a"]
    samples = [(rng.choice(pool), rng.choice(pool)) for _ in range(80)]
    job.validate("_is_path_connected_to_class", lambda p, c: concrete(Ev(fn).call(_self(), BStr.const(p), BStr.const(c))), _real, samples)
    return job.result()
