"""Regenerate the sub-check table of DESIGN.md section 4.0 from props/*.py (run with .venv/bin/python)."""
from __future__ import annotations

import importlib
import os
import re
from pathlib import Path

from vlib.plan import CH

ROOT = Path(__file__).resolve().parent


def rows():
    out = []
    for i in range(1, 21):
        pid = f"C{i:02d}"
        os.environ["VERIF_TIER"] = "quick"
        mod = importlib.import_module(f"props.{pid.lower()}")
        quick = mod.plan("quick")
        thorough = mod.plan("thorough")
        cells = []
        for s in quick:
            if isinstance(s, CH):
                cells.append(f"`{s.id}` (C, {len(s.partitions)}p: {s.desc})")
            else:
                cells.append(f"`{s.id}` (K: {s.desc})")
        tp = sum(len(s.partitions) for s in thorough if isinstance(s, CH))
        out.append(f"| {pid} | {'; '.join(cells)} | {tp} |")
    return out


def main() -> None:
    p = ROOT / "DESIGN.md"
    s = p.read_text()
    head = "| id | sub-checks (quick tier) | thorough: CrossHair partitions |\n|---|---|---|\n"
    a = s.index(head) + len(head)
    b = a + re.search(r"\n\n", s[a:]).start()
    p.write_text(s[:a] + "\n".join(rows()) + s[b:])


if __name__ == "__main__":
    main()
