"""Independent recogniser for the stub subset of Safe-DS (shares no code with the generator).

parse(text) -> StubFile or raises StubSyntaxError(position, message).

Grammar (what a .sdsstub file may contain):

  file        := { TODO } [ DOC ] [ '@PythonModule' '(' STRING ')' ] 'package' qname { import } { decl }
  import      := 'from' qname 'import' ID
  decl        := { TODO } [ DOC ] { TODO } { annotation } ( class | fun | enum )
  class       := 'class' ID [ '<' tparam { ',' tparam } '>' ] [ '(' [ params ] ')' ] [ 'sub' type { ',' type } ]
                 [ '{' { member } '}' ]
  member      := { TODO } [ DOC ] { annotation } ( class | fun | attr )
  attr        := [ 'static' ] 'attr' ID [ ':' type ]
  fun         := [ 'static' ] 'fun' ID [ '<' tparam { ',' tparam } '>' ] '(' [ params ] ')' [ '->' results ]
  results     := result | '(' result { ',' result } ')'
  result      := ID ':' type
  params      := param { ',' param }
  param       := { annotation } ID [ ':' type ] [ '=' literal ]
  tparam      := [ 'in' | 'out' ] ID [ 'sub' type ]
  type        := primary [ '?' ]
  primary     := 'union' '<' type { ',' type } '>' | 'literal' '<' literal { ',' literal } '>' | 'unknown'
               | '(' [ params ] ')' '->' ( result | '(' [ result { ',' result } ] ')' )
               | ID [ '<' [ type { ',' type } ] '>' ]
  enum        := 'enum' ID [ '{' { { annotation } ID } '}' ]
  annotation  := '@' ID [ '(' STRING ')' ]
  literal     := STRING | NUMBER | 'true' | 'false' | 'null' | 'unknown' | '[' ']' | '{' '}'
  qname       := ID { '.' ID }
  ID          := plain identifier that is not a keyword | '`' identifier '`'

Deliberate leniencies (stated so that the oracle is no stronger than the property): 'unknown' is accepted as a type
and as a default value (the generator flags both with a TODO); '[]' and '{}' are accepted as variadic defaults.
"""
from __future__ import annotations

import re
from dataclasses import dataclass, field

# Typed in from the Safe-DS grammar (not imported from the generator): 32 reserved words plus the wildcard '_'.
KEYWORDS = frozenset(
    """and annotation as attr class const enum false from fun import in internal literal not null or out package
    pipeline private schema segment static sub this true union unknown val where yield _""".split(),
)
assert len(KEYWORDS) == 33


class StubSyntaxError(Exception):
    def __init__(self, pos: int, msg: str, text: str = "") -> None:
        line = text.count("\n", 0, pos) + 1
        super().__init__(f"line {line} (offset {pos}): {msg}")
        self.pos = pos
        self.msg = msg


@dataclass
class Tok:
    kind: str  # ID, BQID, KW, STR, NUM, PUNCT, ANNOT, DOC, TODO, COMMENT, EOF
    val: str
    pos: int


_ID_RE = re.compile(r"[A-Za-z_][A-Za-z0-9_]*")
_NUM_RE = re.compile(r"-?(?:\d+\.\d+|\d+\.|\.\d+|\d+)(?:[eE][+-]?\d+)?|-?inf|nan")
_STR_RE = re.compile(r'"(?:\\.|[^"\\])*"', re.S)
_BQ_RE = re.compile(r"`([A-Za-z_][A-Za-z0-9_]*)`")


def tokenize(text: str) -> list[Tok]:
    toks: list[Tok] = []
    i, n = 0, len(text)
    while i < n:
        c = text[i]
        if c in " \t\r\n":
            i += 1
            continue
        if text.startswith("/**", i) or text.startswith("/*", i):
            j = text.find("*/", i + 2)
            if j < 0:
                raise StubSyntaxError(i, "unterminated block comment", text)
            toks.append(Tok("DOC", text[i : j + 2], i))
            i = j + 2
            continue
        if text.startswith("//", i):
            j = text.find("\n", i)
            j = n if j < 0 else j
            body = text[i:j]
            toks.append(Tok("TODO" if body.startswith("// TODO") else "COMMENT", body, i))
            i = j
            continue
        if c == '"':
            m = _STR_RE.match(text, i)
            if not m:
                raise StubSyntaxError(i, "unterminated or malformed string literal", text)
            toks.append(Tok("STR", m.group(0), i))
            i = m.end()
            continue
        if c == "`":
            m = _BQ_RE.match(text, i)
            if not m:
                raise StubSyntaxError(i, "malformed back-quoted identifier", text)
            toks.append(Tok("BQID", m.group(1), i))
            i = m.end()
            continue
        if c == "@":
            m = _ID_RE.match(text, i + 1)
            if not m:
                raise StubSyntaxError(i, "malformed annotation", text)
            toks.append(Tok("ANNOT", m.group(0), i))
            i = m.end()
            continue
        if c.isdigit() or (c == "-" and i + 1 < n and (text[i + 1].isdigit() or text[i + 1] == ".")):
            m = _NUM_RE.match(text, i)
            if not m:
                raise StubSyntaxError(i, "malformed number", text)
            toks.append(Tok("NUM", m.group(0), i))
            i = m.end()
            continue
        if c == "-" and text.startswith("->", i):
            toks.append(Tok("PUNCT", "->", i))
            i += 2
            continue
        m = _ID_RE.match(text, i)
        if m:
            w = m.group(0)
            toks.append(Tok("KW" if w in KEYWORDS else "ID", w, i))
            i = m.end()
            continue
        if c in "(){}<>,:=?.[]":
            toks.append(Tok("PUNCT", c, i))
            i += 1
            continue
        raise StubSyntaxError(i, f"unexpected character {c!r}", text)
    toks.append(Tok("EOF", "", n))
    return toks


# ----------------------------------------------------------------------------------------------------------------- tree


@dataclass
class TypeRef:
    """A type expression. kind: named | union | literal | callable | unknown."""

    kind: str
    name: str = ""
    quoted: bool = False
    args: list = field(default_factory=list)  # TypeRef for named/union; literal values (source text) for literal
    params: list = field(default_factory=list)  # callable: list[Param]
    results: list = field(default_factory=list)  # callable: list[Result]
    nullable: bool = False

    def names(self) -> list[str]:
        """All class names referenced in this type (named constructors, excluding literals)."""
        out = []
        if self.kind == "named":
            out.append(self.name)
        for a in self.args:
            if isinstance(a, TypeRef):
                out += a.names()
        for p in self.params:
            if p.type is not None:
                out += p.type.names()
        for r in self.results:
            out += r.type.names()
        return out

    def render(self) -> str:
        if self.kind == "named":
            s = self.name + (f"<{', '.join(a.render() for a in self.args)}>" if self.args else "")
        elif self.kind == "union":
            s = f"union<{', '.join(a.render() for a in self.args)}>"
        elif self.kind == "literal":
            s = f"literal<{', '.join(self.args)}>"
        elif self.kind == "unknown":
            s = "unknown"
        else:
            ps = ", ".join(f"{p.name}: {p.type.render() if p.type else ''}" for p in self.params)
            rs = ", ".join(f"{r.name}: {r.type.render()}" for r in self.results)
            s = f"({ps}) -> ({rs})"
        return s + ("?" if self.nullable else "")


@dataclass
class Param:
    name: str
    quoted: bool
    python_name: str | None
    type: TypeRef | None
    default: str | None  # source text of the literal

    @property
    def pyname(self) -> str:
        return self.python_name if self.python_name is not None else self.name


@dataclass
class Result:
    name: str
    quoted: bool
    type: TypeRef


@dataclass
class TParam:
    name: str
    quoted: bool
    variance: str  # "", "in", "out"
    bound: TypeRef | None


@dataclass
class Decl:
    kind: str  # class | fun | attr | enum | variant
    name: str
    quoted: bool = False
    python_name: str | None = None
    todos: list[str] = field(default_factory=list)
    doc: str | None = None
    annotations: list[str] = field(default_factory=list)
    static: bool = False
    tparams: list[TParam] = field(default_factory=list)
    params: list[Param] | None = None  # None: class without constructor list
    results: list[Result] = field(default_factory=list)
    type: TypeRef | None = None
    supers: list[TypeRef] = field(default_factory=list)
    members: list["Decl"] = field(default_factory=list)
    has_body: bool = False
    pos: int = 0

    @property
    def pyname(self) -> str:
        return self.python_name if self.python_name is not None else self.name

    def walk(self, prefix: str = ""):
        """Yield (owner python path, decl) for this declaration and everything nested in it."""
        yield prefix, self
        for m in self.members:
            yield from m.walk(f"{prefix}/{self.pyname}" if prefix else self.pyname)


@dataclass
class StubFile:
    package: str
    package_quoted_segments: list[bool]
    python_module: str | None
    doc: str | None
    imports: list[tuple[str, str]]
    decls: list[Decl]
    leading_todos: list[str] = field(default_factory=list)

    @property
    def pymodule(self) -> str:
        return self.python_module if self.python_module is not None else self.package

    def all_decls(self):
        for d in self.decls:
            yield from d.walk("")

    def type_names(self) -> list[str]:
        """Every class name used in a type or superclass position anywhere in the file."""
        out: list[str] = []
        for _, d in self.all_decls():
            for s in d.supers:
                out += s.names()
            if d.type is not None:
                out += d.type.names()
            for p in d.params or []:
                if p.type is not None:
                    out += p.type.names()
            for r in d.results:
                out += r.type.names()
            for tp in d.tparams:
                if tp.bound is not None:
                    out += tp.bound.names()
        return out


# --------------------------------------------------------------------------------------------------------------- parser


class _P:
    def __init__(self, text: str) -> None:
        self.text = text
        self.toks = [t for t in tokenize(text) if t.kind != "COMMENT"]
        self.i = 0

    # token helpers
    @property
    def t(self) -> Tok:
        return self.toks[self.i]

    def err(self, msg: str) -> StubSyntaxError:
        return StubSyntaxError(self.t.pos, f"{msg}; found {self.t.kind} {self.t.val!r}", self.text)

    def is_p(self, v: str) -> bool:
        return self.t.kind == "PUNCT" and self.t.val == v

    def is_kw(self, v: str) -> bool:
        return self.t.kind == "KW" and self.t.val == v

    def eat_p(self, v: str) -> None:
        if not self.is_p(v):
            raise self.err(f"expected {v!r}")
        self.i += 1

    def eat_kw(self, v: str) -> None:
        if not self.is_kw(v):
            raise self.err(f"expected keyword {v!r}")
        self.i += 1

    def ident(self, what: str) -> tuple[str, bool]:
        if self.t.kind == "ID":
            self.i += 1
            return self.toks[self.i - 1].val, False
        if self.t.kind == "BQID":
            self.i += 1
            return self.toks[self.i - 1].val, True
        if self.t.kind == "KW":
            raise self.err(f"keyword used as {what} without back-quotes")
        raise self.err(f"expected identifier ({what})")

    def qname(self, what: str) -> tuple[str, list[bool]]:
        parts, quoted = [], []
        n, q = self.ident(what)
        parts.append(n)
        quoted.append(q)
        while self.is_p("."):
            self.i += 1
            n, q = self.ident(what)
            parts.append(n)
            quoted.append(q)
        return ".".join(parts), quoted

    # grammar
    def file(self) -> StubFile:
        todos = self.todos()
        doc = self.doc()
        pymod = None
        if self.t.kind == "ANNOT":
            if self.t.val != "PythonModule":
                raise self.err("only @PythonModule may precede the package declaration")
            self.i += 1
            pymod = self.annot_arg()
        self.eat_kw("package")
        pkg, quoted = self.qname("package segment")
        imports = []
        while self.is_kw("from"):
            self.i += 1
            src, _ = self.qname("import source")
            self.eat_kw("import")
            name, _ = self.ident("imported name")
            imports.append((src, name))
        decls = []
        while self.t.kind != "EOF":
            if self.is_kw("package") or self.is_kw("from"):
                raise self.err("package/import after the header")
            decls.append(self.decl(top=True))
        return StubFile(pkg, quoted, pymod, doc, imports, decls, todos)

    def todos(self) -> list[str]:
        out = []
        while self.t.kind == "TODO":
            out.append(self.t.val)
            self.i += 1
        return out

    def doc(self) -> str | None:
        if self.t.kind == "DOC":
            self.i += 1
            return self.toks[self.i - 1].val
        return None

    def annot_arg(self) -> str:
        self.eat_p("(")
        if self.t.kind != "STR":
            raise self.err("expected string literal in annotation")
        s = self.t.val
        self.i += 1
        self.eat_p(")")
        return _unquote(s)

    def annotations(self) -> tuple[list[str], str | None]:
        names, pyname = [], None
        while self.t.kind == "ANNOT":
            a = self.t.val
            self.i += 1
            names.append(a)
            if a == "PythonName":
                if pyname is not None:
                    raise self.err("duplicate @PythonName")
                pyname = self.annot_arg()
            elif a == "Pure":
                pass
            elif a == "PythonModule":
                raise self.err("@PythonModule on a declaration")
            else:
                raise self.err(f"unknown annotation @{a}")
        return names, pyname

    def decl(self, top: bool) -> Decl:
        pos = self.t.pos
        todos = self.todos()
        doc = self.doc()
        todos += self.todos()  # comments may also sit between the documentation comment and the declaration
        annots, pyname = self.annotations()
        todos += self.todos()  # ... and between the annotations and the declaration keyword
        static = False
        if self.is_kw("static"):
            static = True
            self.i += 1
        if self.is_kw("class"):
            if static:
                raise self.err("static class")
            d = self.class_()
        elif self.is_kw("fun"):
            d = self.fun()
        elif self.is_kw("attr"):
            if top:
                raise self.err("attr at module level")
            d = self.attr()
        elif self.is_kw("enum"):
            if static:
                raise self.err("static enum")
            d = self.enum()
        else:
            raise self.err("expected a declaration")
        d.todos, d.doc, d.annotations, d.python_name, d.static, d.pos = todos, doc, annots, pyname, static, pos
        if d.kind == "fun" and "Pure" not in annots:
            raise StubSyntaxError(pos, "function without @Pure", self.text)
        if d.kind != "fun" and "Pure" in annots:
            raise StubSyntaxError(pos, "@Pure on a non-function", self.text)
        return d

    def tparams(self) -> list[TParam]:
        out = []
        if not self.is_p("<"):
            return out
        self.i += 1
        while True:
            variance = ""
            if self.is_kw("in") or self.is_kw("out"):
                variance = self.t.val
                self.i += 1
            n, q = self.ident("type parameter")
            bound = None
            if self.is_kw("sub"):
                self.i += 1
                bound = self.type_()
            out.append(TParam(n, q, variance, bound))
            if self.is_p(","):
                self.i += 1
                continue
            break
        self.eat_p(">")
        return out

    def class_(self) -> Decl:
        self.eat_kw("class")
        n, q = self.ident("class name")
        d = Decl("class", n, q)
        d.tparams = self.tparams()
        if self.is_p("("):
            d.params = self.params()
        if self.is_kw("sub"):
            self.i += 1
            d.supers.append(self.type_())
            while self.is_p(","):
                self.i += 1
                d.supers.append(self.type_())
        if self.is_p("{"):
            self.i += 1
            d.has_body = True
            while not self.is_p("}"):
                if self.t.kind == "EOF":
                    raise self.err("unclosed class body")
                d.members.append(self.decl(top=False))
            self.i += 1
        return d

    def fun(self) -> Decl:
        self.eat_kw("fun")
        n, q = self.ident("function name")
        d = Decl("fun", n, q)
        d.tparams = self.tparams()
        d.params = self.params()
        if self.is_p("->"):
            self.i += 1
            if self.is_p("("):
                self.i += 1
                d.results.append(self.result())
                while self.is_p(","):
                    self.i += 1
                    d.results.append(self.result())
                self.eat_p(")")
                if len(d.results) < 2:
                    raise self.err("parenthesised result list with fewer than two results")
            else:
                d.results.append(self.result())
        return d

    def attr(self) -> Decl:
        self.eat_kw("attr")
        n, q = self.ident("attribute name")
        d = Decl("attr", n, q)
        if self.is_p(":"):
            self.i += 1
            d.type = self.type_()
        return d

    def enum(self) -> Decl:
        self.eat_kw("enum")
        n, q = self.ident("enum name")
        d = Decl("enum", n, q)
        if self.is_p("{"):
            self.i += 1
            d.has_body = True
            while not self.is_p("}"):
                if self.t.kind == "EOF":
                    raise self.err("unclosed enum body")
                pos = self.t.pos
                annots, pyname = self.annotations()
                vn, vq = self.ident("enum variant")
                d.members.append(Decl("variant", vn, vq, python_name=pyname, annotations=annots, pos=pos))
            self.i += 1
        return d

    def params(self) -> list[Param]:
        self.eat_p("(")
        out = []
        if self.is_p(")"):
            self.i += 1
            return out
        while True:
            _, pyname = self.annotations()
            n, q = self.ident("parameter name")
            ty, default = None, None
            if self.is_p(":"):
                self.i += 1
                ty = self.type_()
            if self.is_p("="):
                self.i += 1
                default = self.literal()
            out.append(Param(n, q, pyname, ty, default))
            if self.is_p(","):
                self.i += 1
                continue
            break
        self.eat_p(")")
        return out

    def result(self) -> Result:
        n, q = self.ident("result name")
        self.eat_p(":")
        return Result(n, q, self.type_())

    def literal(self) -> str:
        t = self.t
        if t.kind in ("STR", "NUM"):
            self.i += 1
            return t.val
        if t.kind == "KW" and t.val in ("true", "false", "null", "unknown"):
            self.i += 1
            return t.val
        if self.is_p("["):
            self.i += 1
            self.eat_p("]")
            return "[]"
        if self.is_p("{"):
            self.i += 1
            self.eat_p("}")
            return "{}"
        raise self.err("expected a literal")

    def type_(self) -> TypeRef:
        t = self.primary()
        if self.is_p("?"):
            self.i += 1
            t.nullable = True
        return t

    def primary(self) -> TypeRef:
        if self.is_kw("union"):
            self.i += 1
            self.eat_p("<")
            args = [self.type_()]
            while self.is_p(","):
                self.i += 1
                args.append(self.type_())
            self.eat_p(">")
            return TypeRef("union", args=args)
        if self.is_kw("literal"):
            self.i += 1
            self.eat_p("<")
            args = [self.literal()]
            while self.is_p(","):
                self.i += 1
                args.append(self.literal())
            self.eat_p(">")
            return TypeRef("literal", args=args)
        if self.is_kw("unknown"):
            self.i += 1
            return TypeRef("unknown")
        if self.is_p("("):
            params = self.params()
            self.eat_p("->")
            results = []
            if self.is_p("("):
                self.i += 1
                if not self.is_p(")"):
                    results.append(self.result())
                    while self.is_p(","):
                        self.i += 1
                        results.append(self.result())
                self.eat_p(")")
            else:
                results.append(self.result())
            return TypeRef("callable", params=params, results=results)
        n, q = self.ident("type name")
        args = []
        if self.is_p("<"):
            self.i += 1
            if not self.is_p(">"):  # Safe-DS allows an empty type-argument list
                args.append(self.type_())
                while self.is_p(","):
                    self.i += 1
                    args.append(self.type_())
            self.eat_p(">")
        return TypeRef("named", name=n, quoted=q, args=args)


def _unquote(s: str) -> str:
    body = s[1:-1]
    return re.sub(r"\\(.)", r"\1", body)


def parse(text: str) -> StubFile:
    return _P(text).file()


def try_parse(text: str):
    try:
        return parse(text), None
    except StubSyntaxError as e:
        return None, str(e)


def parse_decl(text: str, top: bool = True) -> Decl:
    """Parse a single declaration (e.g. the output of one _create_function_string call)."""
    p = _P(text)
    d = p.decl(top=top)
    if p.t.kind != "EOF":
        raise p.err("trailing text after declaration")
    return d
