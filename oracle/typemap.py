"""Reference translation for C05: Python annotation term -> canonical Safe-DS type (written once, from the statement).

Annotation terms (independent of mypy and of the API model):
    ("int"|"str"|"bool"|"float"|"None"|"Any",)         ("cls", name, qname)         ("typevar", name)
    ("list", t) ("seq", t) ("coll", t) ("set", t)       ("tuple", [t...])            ("dict", k, v) ("mapping", k, v)
    ("union", [t...])  ("optional", t)                   ("literal", [values])        ("callable", [params], ret)
    ("generic", name, qname, [args])

Canonical Safe-DS types (hashable; unions as frozensets, `T?` == union<T, Nothing?>, union of one == the member):
    "Int" "String" "Boolean" "Float" "Nothing?" "Any"  name
    ("List", (t,...)) ("Set", (t,...)) ("Tuple", (t,...)) ("Map", k, v) (name, (args...))
    ("union", frozenset) ("literal", frozenset of rendered values) ("callable", (params...), (results...))
"""
from __future__ import annotations

PRIM = {"int": "Int", "str": "String", "bool": "Boolean", "float": "Float", "None": "Nothing?", "Any": "Any"}


def lit_text(v) -> str:
    if isinstance(v, bool):
        return "true" if v else "false"
    if v is None:
        return "null"
    if isinstance(v, str):
        return f'"{v}"'
    return str(v)


def mk_union(members) -> object:
    """Union normalisation: flatten, merge literal members, drop duplicates, a union of one is the member."""
    flat = []
    for m in members:
        if isinstance(m, tuple) and m and m[0] == "union":
            flat.extend(m[1])
        else:
            flat.append(m)
    lits = [m for m in flat if isinstance(m, tuple) and m and m[0] == "literal"]
    rest = [m for m in flat if not (isinstance(m, tuple) and m and m[0] == "literal")]
    if lits:
        merged = frozenset().union(*[m[1] for m in lits])
        if "null" in merged:  # literal<..., null> is the generator's shorthand for Literal[...] | None
            merged = merged - {"null"}
            rest.append("Nothing?")
        if merged:
            rest.append(("literal", merged))
    s = frozenset(rest)
    if len(s) == 1:
        return next(iter(s))
    return ("union", s)


def ref(t) -> object:
    k = t[0]
    if k in PRIM:
        return PRIM[k]
    if k == "cls":
        return t[1]
    if k == "typevar":
        return t[1]
    if k in ("list", "seq", "coll"):
        return ("List", (ref(t[1]),))
    if k == "set":
        return ("Set", (ref(t[1]),))
    if k == "tuple":
        return ("Tuple", tuple(ref(x) for x in t[1]))
    if k in ("dict", "mapping"):
        return ("Map", ref(t[1]), ref(t[2]))
    if k == "union":
        return mk_union([ref(x) for x in t[1]])
    if k == "optional":
        return mk_union([ref(t[1]), "Nothing?"])
    if k == "literal":
        return ("literal", frozenset(lit_text(v) for v in t[1]))
    if k == "callable":
        r = t[2]
        results = tuple(ref(x) for x in r[1]) if r[0] == "tuple" else (() if r[0] == "None" else (ref(r),))
        return ("callable", tuple(ref(x) for x in t[1]), results)
    if k == "generic":
        return (t[1], tuple(ref(x) for x in t[3]))
    raise ValueError(k)


# ---------------------------------------------------------------------------------------- canonical form of stub types
def canon_stub(tr) -> object:
    """oracle.recogniser.TypeRef -> canonical type."""
    if tr.kind == "named":
        if tr.args or tr.name in ("List", "Set", "Tuple", "Map"):
            args = tuple(canon_stub(a) for a in tr.args)
            if tr.name == "Map" and len(args) == 2:
                base = ("Map", args[0], args[1])
            elif tr.name in ("List", "Set", "Tuple"):
                base = (tr.name, args)
            else:
                base = (tr.name, args)
        else:
            base = "Nothing?" if tr.name == "Nothing" else tr.name
        if tr.nullable and base != "Nothing?":
            return mk_union([base, "Nothing?"])
        return base
    if tr.kind == "union":
        base = mk_union([canon_stub(a) for a in tr.args])
    elif tr.kind == "literal":
        base = mk_union([("literal", frozenset(tr.args))])
    elif tr.kind == "callable":
        base = ("callable", tuple(canon_stub(p.type) for p in tr.params), tuple(canon_stub(r.type) for r in tr.results))
    else:
        base = "unknown"
    if tr.nullable:
        return mk_union([base, "Nothing?"])
    return base


# ----------------------------------------------------------------------------------------- canonical form of API types
def canon_api(d: dict | None) -> object:
    """AbstractType.to_dict() -> canonical type, by the documented meaning of each API type kind."""
    if d is None:
        return None
    k = d["kind"]
    if k == "NamedType":
        return PRIM.get(d["name"], d["name"])
    if k == "ListType":
        return ("List", tuple(canon_api(x) for x in d["types"]))
    if k == "SetType":
        return ("Set", tuple(canon_api(x) for x in d["types"]))
    if k == "TupleType":
        return ("Tuple", tuple(canon_api(x) for x in d["types"]))
    if k == "DictType":
        return ("Map", canon_api(d["key_type"]), canon_api(d["value_type"]))
    if k == "UnionType":
        return mk_union([canon_api(x) for x in d["types"]])
    if k == "LiteralType":
        return mk_union([("literal", frozenset(lit_text(v) for v in d["literals"]))])
    if k == "CallableType":
        rt = d["return_type"]
        if rt["kind"] == "TupleType":
            results = tuple(canon_api(x) for x in rt["types"])
        elif rt["kind"] == "NamedType" and rt["name"] == "None":
            results = ()
        else:
            results = (canon_api(rt),)
        return ("callable", tuple(canon_api(x) for x in d["parameter_types"]), results)
    if k == "NamedSequenceType":
        return (d["name"], tuple(canon_api(x) for x in d["types"]))
    if k == "TypeVarType":
        return d["name"]
    if k == "FinalType":
        return canon_api(d["type"])
    return "unknown"
