"""Reference model for C20: which TODO markers a declaration must carry, computed from the API model alone.

Restates the property's list: parameter / result / attribute without type, tuple or set types, a list or set with
several type arguments, variadic parameters, class methods, optional position-only or required keyword-only parameters,
multiple inheritance, an unparsable default value.  (The generator's extra marker 'internal class as type' is outside
the statement's list; harnesses avoid underscore-named type references.)
"""
from __future__ import annotations

from safeds_stubgen.api_analyzer import ParameterAssignment as PA
from safeds_stubgen.api_analyzer._api import UnknownValue

TEXT = {
    "tuple": "// TODO Safe-DS does not support tuple types.",
    "set": "// TODO Safe-DS does not support set types.",
    "list_args": "// TODO List type has to many type arguments.",
    "set_args": "// TODO Set type has to many type arguments.",
    "opt_pos_only": "// TODO Safe-DS does not support optional but position only parameter assignments.",
    "req_name_only": "// TODO Safe-DS does not support required but name only parameter assignments.",
    "multi_inherit": "// TODO Safe-DS does not support multiple inheritance.",
    "variadic": "// TODO Safe-DS does not support variadic parameters.",
    "class_method": "// TODO Safe-DS does not support class methods.",
    "param_no_type": "// TODO Some parameter have no type information.",
    "attr_no_type": "// TODO Attribute has no type information.",
    "result_no_type": "// TODO Result type information missing.",
    "unknown_value": "// TODO Unknown value - Value could not be parsed.",
    "unknown_type": "// TODO Unknown type - Type could not be parsed.",
    "internal_type": "// TODO An internal class must not be used as a type in a public class.",
}
BY_TEXT = {v: k for k, v in TEXT.items()}


def type_features(d: dict | None, top_vararg: bool = False) -> set[str]:
    """Markers a rendered type term requires (d = AbstractType.to_dict())."""
    out: set[str] = set()
    if d is None:
        return out
    k = d["kind"]
    if k == "TupleType":
        if top_vararg:  # *args: presented as a list
            if len(d["types"]) >= 2:
                out.add("list_args")
        else:
            out.add("tuple")
        for t in d["types"]:
            out |= type_features(t)
    elif k == "SetType":
        out.add("set")
        if len(d["types"]) >= 2:
            out.add("set_args")
        for t in d["types"]:
            out |= type_features(t)
    elif k == "ListType":
        if len(d["types"]) >= 2:
            out.add("list_args")
        for t in d["types"]:
            out |= type_features(t)
    elif k in ("UnionType", "NamedSequenceType"):
        for t in d["types"]:
            out |= type_features(t)
    elif k == "DictType":
        out |= type_features(d["key_type"]) | type_features(d["value_type"])
    elif k == "FinalType":
        out |= type_features(d["type"])
    elif k == "CallableType":
        for t in d["parameter_types"]:
            out |= type_features(t)
        rt = d["return_type"]
        if rt["kind"] == "TupleType":  # several results of a callable: rendered as a result list, no tuple marker
            for t in rt["types"]:
                out |= type_features(t)
        else:
            out |= type_features(rt)
    elif k == "UnknownType":
        out.add("unknown_type")
    return out


def param_features(params, skip_first: bool) -> set[str]:
    out: set[str] = set()
    for i, p in enumerate(params):
        if skip_first and i == 0:
            continue
        if p.type is None:
            out.add("param_no_type")
        else:
            out |= type_features(p.type.to_dict(), top_vararg=p.assigned_by == PA.POSITIONAL_VARARG)
            if p.is_optional and isinstance(p.default_value, UnknownValue):
                out.add("unknown_value")
        if p.assigned_by == PA.POSITION_ONLY and p.is_optional:
            out.add("opt_pos_only")
        if p.assigned_by == PA.NAME_ONLY and not p.is_optional:
            out.add("req_name_only")
        if p.assigned_by in (PA.POSITIONAL_VARARG, PA.NAMED_VARARG):
            out.add("variadic")
    return out


def function_markers(f, is_method: bool) -> set[str]:
    out = param_features(f.parameters, skip_first=is_method and not f.is_static)
    if f.is_class_method:
        out.add("class_method")
    typed = [r for r in f.results if r.type is not None]
    returns_none = any(r.type.to_dict().get("qname") == "builtins.None" and r.type.to_dict()["kind"] == "NamedType" for r in typed)
    if not typed:
        out.add("result_no_type")
    elif not returns_none:
        for r in typed:
            out |= type_features(r.type.to_dict())
    return out


def property_markers(f) -> set[str]:
    out: set[str] = set()
    for r in f.results:
        if r.type is not None:
            out |= type_features(r.type.to_dict())
    return out


def attribute_markers(a) -> set[str]:
    if a.type is None:
        return {"attr_no_type"}
    return type_features(a.type.to_dict())


def class_markers(c) -> set[str]:
    out: set[str] = set()
    if c.constructor is not None and "abc.ABC" not in c.superclasses:
        out |= param_features(c.constructor.parameters, skip_first=True)
    public_supers = [s for s in c.superclasses if not s.split(".")[-1].startswith("_")]
    if len(public_supers) > 1 and "abc.ABC" not in c.superclasses:
        out.add("multi_inherit")
    for tp in c.type_parameters:
        if tp.type is not None:
            out |= type_features(tp.type.to_dict())
    return out
