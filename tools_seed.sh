#!/bin/bash
# tools_seed.sh <Cxx> [checks...] : confirm a seeded change from /tmp/seed/<Cxx>, run checks against it, store it under seeded/
set -u
P=$1; shift
CHECKS=${@:-${P:0:3}}
W=/tmp/seed/$P
D=/verif/seeded/$P
mkdir -p $D
cd $W || exit 2
git diff -- src > $D/patch.diff
cp demo.py $D/demo.py; cp NOTES.md $D/NOTES.md 2>/dev/null
echo "== demo with change"; PYTHONPATH=$W/src /venv/bin/python demo.py >/tmp/seed/$P.with.log 2>&1; WITH=$?; tail -3 /tmp/seed/$P.with.log
git apply -R $D/patch.diff; echo "== demo without change"; PYTHONPATH=$W/src /venv/bin/python demo.py >/tmp/seed/$P.without.log 2>&1; WITHOUT=$?; tail -2 /tmp/seed/$P.without.log; git apply $D/patch.diff
echo "demo exit with=$WITH without=$WITHOUT"
echo "== tests with change"; PYTHONPATH=$W/src /venv/bin/python -m pytest -q -p no:cacheprovider --timeout=900 --continue-on-collection-errors 2>&1 | tail -1 | tee /tmp/seed/$P.tests.log
cd /verif
git -C /repo apply $D/patch.diff || { echo "patch does not apply to /repo"; exit 2; }
for c in $CHECKS; do
  echo "== check $c against the change"
  VERIF_EVIDENCE_DIR=/tmp/seed/evidence ./bin/check $c --tier quick > /tmp/seed/$P.$c.check.log 2>&1; echo "exit $?"
  grep -E "^VIOLATION" -A1 /tmp/seed/$P.$c.check.log | head -8
  tail -1 /tmp/seed/$P.$c.check.log
done
git -C /repo checkout -- .
git -C /repo status --short | head -3
