#!/bin/bash
# Re-apply every seeded change to /repo in turn and confirm that the property's quick check still reports it.
cd /verif
ok=0; bad=0
for d in seeded/C*/; do
  tag=$(basename $d); id=${tag:0:3}
  git -C /repo apply /verif/$d/patch.diff || { echo "$tag: patch does not apply"; bad=$((bad+1)); continue; }
  out=$(VERIF_EVIDENCE_DIR=/tmp/seed/evidence ./bin/check $id --tier quick 2>&1); code=$?
  git -C /repo checkout -- .
  n=$(echo "$out" | grep -c "^VIOLATION property=$id")
  if [ $code -eq 1 ] && [ $n -ge 1 ]; then echo "$tag: caught ($n violation lines)"; ok=$((ok+1)); else echo "$tag: NOT caught (exit $code)"; echo "$out" | tail -3; bad=$((bad+1)); fi
done
echo "seeded changes caught: $ok, not caught: $bad"
git -C /repo status --short | head -3
