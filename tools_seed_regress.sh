#!/bin/bash
# Re-apply every seeded change to a scratch worktree of /repo in turn and confirm that the property's quick check still
# reports it (VERIF_REPO points the checks at the worktree; /repo itself is not touched; evidence goes to a scratch dir).
# usage: tools_seed_regress.sh [tag ...]   (default: every directory under seeded/)
cd /verif
WT=/tmp/seed_regress_wt
git -C /repo worktree remove --force $WT 2>/dev/null
git -C /repo worktree add -q --detach $WT HEAD || exit 2
ok=0; bad=0
tags=${@:-$(ls seeded)}
for tag in $tags; do
  id=${tag:0:3}
  git -C $WT apply /verif/seeded/$tag/patch.diff || { echo "$tag: patch does not apply"; bad=$((bad+1)); continue; }
  out=$(VERIF_REPO=$WT VERIF_EVIDENCE_DIR=/tmp/seed/evidence ./bin/check $id --tier quick 2>&1); code=$?
  git -C $WT checkout -- .
  n=$(echo "$out" | grep -c "^VIOLATION property=$id")
  if [ $code -eq 1 ] && [ $n -ge 1 ]; then echo "$tag: caught ($n violation lines)"; ok=$((ok+1)); else echo "$tag: NOT caught (exit $code)"; echo "$out" | tail -3; bad=$((bad+1)); fi
done
echo "seeded changes caught: $ok, not caught: $bad"
git -C /repo worktree remove --force $WT
