"""Regenerate MANIFEST.json from props/*.py (each claimed property module defines MANIFEST = {...})."""
import importlib
import json
import sys

sys.path.insert(0, "/verif")
ALL = [f"C{i:02d}" for i in range(1, 21)]
NOT_BUILT_REASON = "check not built yet in this round (planned in DESIGN.md section 4); nothing is claimed"
checks, na = [], []
for pid in ALL:
    try:
        m = importlib.import_module(f"props.{pid.lower()}")
        man = m.MANIFEST
    except (ImportError, AttributeError):
        na.append({"property_id": pid, "reason": NOT_BUILT_REASON})
        continue
    checks.append({
        "property_id": pid,
        "quick_cmd": f"./bin/check {pid} --tier quick",
        "thorough_cmd": f"./bin/check {pid} --tier thorough",
        "evidence_file": f"/verif/evidence/{pid}.json",
        "replay_cmd_template": f"./bin/check {pid} --replay {{path}}",
        "engine": man.get("engine", "engine-C (CrossHair/z3 on the real bytecode) + engine-K (AST->SMT, z3/cvc5)"),
        "level_claimed": {"category": "other", "text": man["text"], "design_ref": f"DESIGN.md section 4, {pid}"},
        "level_note": man["note"],
        "technique": man["technique"],
    })
manifest = {
    "version": 1,
    "setup_cmd": "./bin/setup.sh",
    "hooks": {
        "guard": "SAFE_DS_STUB_GENERATOR_VERIF",
        "enable": "no source hooks: every stub/shim is installed from the harness by rebinding module attributes",
        "baseline_off_cmd": "cd /repo && /venv/bin/python -m pytest -ra -q -p no:cacheprovider --timeout=900 --continue-on-collection-errors",
        "source_commits": [],
        "add_only": True,
    },
    "engines": [
        {"name": "engine-C", "path": "vlib/ch_worker.py", "serves_properties": [c["property_id"] for c in checks],
         "kind_free_text": "CrossHair 0.0.110 symbolic execution of the repository's real bytecode, z3 decides each path; "
                           "partitioned, 16 processes; counterexamples replayed natively"},
        {"name": "engine-K", "path": "vlib/ek/", "serves_properties": [c["property_id"] for c in checks],
         "kind_free_text": "AST of the real function (inspect.getsource at check time) -> one path-merged z3 term over "
                           "bounded strings/ints/bools; z3 decides, cvc5 re-decides in the thorough tier"},
    ],
    "checks": checks,
    "not_applicable": na,
    "notes": "Solver-based checking of the real code; see DESIGN.md. Known findings: known_findings.json.",
}
json.dump(manifest, open("/verif/MANIFEST.json", "w"), indent=1)
print(len(checks), "claimed;", len(na), "not claimed")
