"""Model zoo: shape-indexed builders for API models (grammar G_api of DESIGN.md section 3.10).

Every builder creates real `safeds_stubgen` objects through vlib.gapi; the *shape index* is the (possibly symbolic)
selector, everything else is concrete.  Model invariants the analyser guarantees are kept: ids are '<owner id>/<name>',
instance and class methods start with their receiver, a literal default implies a type, a constructor is named
'__init__' and has no results.
"""
from __future__ import annotations

from safeds_stubgen.api_analyzer._api import TypeParameter, VarianceKind
from safeds_stubgen.api_analyzer._api import UnknownValue
from safeds_stubgen.api_analyzer._types import (
    CallableType,
    DictType,
    FinalType,
    ListType,
    LiteralType,
    NamedSequenceType,
    NamedType,
    SetType,
    TupleType,
    TypeVarType,
    UnionType,
)
from vlib.gapi import ANY, BOOL, FLOAT, INT, NONE, PA, STR, mk_attr, mk_class, mk_enum, mk_function, self_param
from vlib.hsupport import OutOfRange


class Names:
    """Identifier pools per naming style: 0 plain, 1 snake_case (changes under conversion), 2 Safe-DS keywords."""

    POOLS = {
        "fun": (["fa", "fb", "fc"], ["get_a", "set_b_", "do_c_d"], ["where", "union", "val"]),
        "cls": (["Ca", "Cb", "Cc", "Cd"], ["my_a", "My_b", "cls_c_x", "My_D_"], ["literal", "out", "schema", "sub"]),
        "par": (["pa", "pb", "pc"], ["p_a", "p_b_", "pp_c"], ["attr", "fun", "internal"]),
        "att": (["aa", "ab", "ac"], ["a_a", "a_b_", "aa_c"], ["const", "static", "this"]),
        "res": (["ra", "rb", "rc"], ["r_a", "r_b_", "rr_c"], ["pipeline", "segment", "private"]),
        "enm": (["Ea", "Eb"], ["E_a", "e_b"], ["annotation", "package"]),
        "mem": (["MA", "MB"], ["M_A", "m_b"], ["null", "true"]),
        "tpv": (["T", "U"], ["T_a", "U_b"], ["out", "val"]),
    }

    def __init__(self, style: int) -> None:
        if not (0 <= style < 3):
            raise OutOfRange
        self.style = style
        self.used: dict[str, int] = {}

    def get(self, role: str) -> str:
        i = self.used.get(role, 0)
        self.used[role] = i + 1
        pool = self.POOLS[role][self.style]
        return pool[i % len(pool)] + ("" if i < len(pool) else str(i))


class Script(list):
    """Native enumeration of a decoder's input space: a selector vector that answers rd() from a script and records
    how many alternatives each read had (used for conformance runs and known-finding searches, never under CrossHair)."""

    def __init__(self, prefix=()):
        super().__init__(prefix)
        self.arity: list[int] = []

    def ask(self, cur, n: int) -> int:
        i = cur.pos
        cur.pos += 1
        while len(self) <= i:
            self.append(0)
        while len(self.arity) <= i:
            self.arity.append(0)
        self.arity[i] = n
        if not (0 <= self[i] < n):
            raise OutOfRange
        return self[i]


def all_vectors(decode, length: int, limit: int = 200000):
    """Depth-first enumeration of every selector vector `decode(sel)` accepts (OutOfRange = rejected)."""
    prefix: list[int] = []
    count = 0
    while True:
        s = Script(prefix)
        ok = True
        try:
            decode(s)
        except OutOfRange:
            ok = False
        used = len(s.arity)
        vec = list(s[:used])
        if ok:
            count += 1
            yield vec + [0] * (length - used)
            if count >= limit:
                return
        # advance: increment the last position that still has alternatives
        i = used - 1
        while i >= 0 and vec[i] + 1 >= s.arity[i]:
            i -= 1
        if i < 0:
            return
        prefix = vec[:i] + [vec[i] + 1]


def rd(sel, cur, n: int) -> int:
    """Read one selector and return it as a CONCRETE int (the solver forks once per value here, so everything
    downstream of the decoder runs on concrete shape indices)."""
    if isinstance(sel, Script):
        return sel.ask(cur, n)
    v = sel[cur.pos]
    cur.pos += 1
    for i in range(n):
        if v == i:
            return i
    raise OutOfRange


class Cur:
    def __init__(self, pos: int = 0) -> None:
        self.pos = pos


# ---------------------------------------------------------------------------------------------------------- type terms
N_TYPE_SHAPES = 16


def type_shape(k: int, cls_ref: NamedType | None = None):
    """A fixed catalogue of type terms (index k) exercising every branch of the type renderer."""
    ref = cls_ref or NamedType("Ext", "ext.lib.Ext")
    return [
        INT,
        STR,
        NONE,
        ANY,
        ref,
        ListType([INT]),
        ListType([INT, STR]),
        SetType([STR]),
        TupleType([INT, STR]),
        DictType(STR, ref),
        UnionType([INT, NONE]),
        UnionType([INT, STR, NONE]),
        UnionType([LiteralType(["x"]), LiteralType([1])]),
        CallableType([INT, STR], BOOL),
        FinalType(FLOAT),
        NamedSequenceType("Seq", "ext.lib.Seq", [ref]),
    ][k]


# ----------------------------------------------------------------------------------------------------------- functions
N_FUN_SHAPES = 14


def build_function(api, owner, shape: int, names: Names, *, method_kind: int = 0, docs: bool = False,
                   cls_ref: NamedType | None = None, name: str | None = None, public: bool = True):
    """method_kind: 0 module-level function, 1 instance method, 2 static method, 3 class method, 4 property."""
    if not (0 <= shape < N_FUN_SHAPES):
        raise OutOfRange
    fname = name or names.get("fun")
    params, results, result_docs, type_vars, examples = [], [], [], [], []
    if method_kind in (1, 4):
        params.append(self_param())
    elif method_kind == 3:
        params.append({"name": "cls", "kind": PA.IMPLICIT})
    ref = cls_ref or NamedType("Ext", "ext.lib.Ext")

    def p(**kw):
        kw.setdefault("name", names.get("par"))
        if docs:
            kw.setdefault("doc", f"doc of {kw['name']}")
        params.append(kw)

    def r(t, nm=None):
        results.append((nm or f"result_{len(results) + 1}", t))

    if method_kind == 4:  # property: no parameters besides self; one result per shape parity
        if shape % 3 == 0:
            r(INT)
        elif shape % 3 == 1:
            r(UnionType([STR, NONE]))
    elif shape == 0:
        pass  # no parameters, no result -> "result without type" marker
    elif shape == 1:
        p(type_=INT)
        r(INT)
    elif shape == 2:
        p(type_=INT, optional=True, default=1)
        p(type_=STR, optional=True, default='"s"')
        r(STR, names.get("res"))
    elif shape == 3:
        p()  # no type
        r(NONE)  # -> None: no result list
    elif shape == 4:
        p(type_=TupleType([INT]), kind=PA.POSITIONAL_VARARG)
        p(type_=DictType(STR, INT), kind=PA.NAMED_VARARG)
        r(BOOL)
    elif shape == 5:
        p(type_=BOOL, kind=PA.POSITION_ONLY, optional=True, default=True)
        p(type_=FLOAT, kind=PA.NAME_ONLY)
        r(FLOAT)
    elif shape == 6:
        r(INT, names.get("res"))
        r(STR, names.get("res"))
        result_docs += [(results[0][0], "first result"), (results[1][0], "second\nresult")]
    elif shape == 7:
        p(type_=ref)
        r(ListType([ref]))
    elif shape == 8:
        p(type_=UnionType([INT, NONE]), optional=True, default=None)
        p(type_=INT, optional=True, default=UnknownValue())
        r(UnionType([ref, NONE]))
    elif shape == 9:
        tv = TypeVarType(names.get("tpv"), None)
        type_vars.append(tv)
        p(type_=tv)
        r(tv)
    elif shape == 10:
        p(type_=SetType([INT, STR]))
        p(type_=CallableType([INT], NONE))
        r(TupleType([INT, STR]))
    elif shape == 11:
        p(type_=LiteralType(["a", 1, True]), optional=True, default='"a"')
        p(kind=PA.POSITIONAL_VARARG)  # untyped *args
        r(DictType(STR, ANY))
        examples.append(f">>> {fname}(1)\n... # more of {fname}\n2")  # unique per function: the oracle counts occurrences
    elif shape == 12:
        p(type_=UnionType([STR, NONE]), kind=PA.POSITION_ONLY, optional=True, default=None)
        p(type_=INT, kind=PA.NAME_ONLY, optional=True, default=-3)
        r(INT)
    elif shape == 13:
        p(type_=UnionType([LiteralType(["a"]), NONE]), optional=True, default=None)
        p(type_=UnionType([LiteralType(["b"]), LiteralType([2]), NONE]))
        p(type_=TupleType([STR]), kind=PA.POSITIONAL_VARARG)
        r(UnionType([LiteralType([True]), NONE]))
    doc = f"Doc of {fname}.\n\nSecond paragraph of {fname}." if docs else ""
    if fname == "__init__":
        results, result_docs = [], []
    return mk_function(
        api, owner, fname, params=params, results=results, public=public, static=method_kind == 2,
        class_method=method_kind == 3, prop=method_kind == 4, doc=doc, result_docs=result_docs, type_vars=type_vars,
        examples=examples if docs else (),
    )


# ------------------------------------------------------------------------------------------------------------- classes
N_CLS_SHAPES = 13


def build_class(api, module, shape: int, names: Names, *, docs: bool = False, other=None, name: str | None = None,
                public: bool = True, owner=None):
    """other: a public class of another module (used as superclass / type reference) or None."""
    if not (0 <= shape < N_CLS_SHAPES):
        raise OutOfRange
    cname = name or names.get("cls")
    owner = owner or module
    supers, tparams, kw = [], [], {}
    other_q = other.id.replace("/", ".") if other is not None else "ext.lib.Base"
    if shape == 5:
        supers = [other_q]
    elif shape == 6:
        supers = [other_q, "ext.lib.Mixin"]
    elif shape == 7:
        supers = ["abc.ABC"]
    elif shape == 8:
        tparams = [TypeParameter(names.get("tpv"), None, VarianceKind.INVARIANT),
                   TypeParameter(names.get("tpv"), INT, VarianceKind.COVARIANT)]
    elif shape == 9:
        kw["exception"] = True
        supers = ["builtins.ValueError"]
    elif shape == 12:  # a type parameter whose bound needs a marker of its own (tuple), on a class with members
        tparams = [TypeParameter(names.get("tpv"), TupleType([INT, STR]), VarianceKind.COVARIANT)]
    c = mk_class(api, owner, cname, public=public, supers=supers, doc=f"Doc of {cname}." if docs else "",
                 type_parameters=tparams, **kw)
    ref = NamedType(other.name, other_q) if other is not None else None
    if shape == 0:
        pass  # empty class, no constructor
    elif shape == 1:
        build_function(api, c, 2, names, method_kind=1, docs=docs, name="__init__")
    elif shape == 2:
        mk_attr(api, c, names.get("att"), INT, static=True, doc="attr doc" if docs else "")
        mk_attr(api, c, names.get("att"), None, static=False)
        mk_attr(api, c, "_" + names.get("att"), STR, public=False)
    elif shape == 3:
        build_function(api, c, 1, names, method_kind=1, docs=docs)
        build_function(api, c, 5, names, method_kind=2, docs=docs)
        build_function(api, c, 7, names, method_kind=3, docs=docs, cls_ref=ref)
    elif shape == 4:
        build_function(api, c, 0, names, method_kind=4, docs=docs)
        build_function(api, c, 1, names, method_kind=4, docs=docs)
        build_function(api, c, 3, names, method_kind=1, docs=docs, name="_hidden", public=False)
    elif shape in (5, 6, 7):
        build_function(api, c, 1, names, method_kind=1, docs=docs)
    elif shape == 8:
        tv = TypeVarType(tparams[0].name, None)
        f = mk_function(api, c, names.get("fun"), params=[self_param(), {"name": names.get("par"), "type_": tv}],
                        results=[("result_1", tv)], type_vars=[tv])
        assert f
    elif shape == 9:
        build_function(api, c, 1, names, method_kind=1)
    elif shape == 10:
        inner = build_class(api, module, 2, names, docs=docs, owner=c)
        build_class(api, module, 0, names, owner=inner)
        build_class(api, module, 3, names, owner=c, name="_Priv", public=False)
    elif shape == 12:
        mk_attr(api, c, names.get("att"), INT, static=True)
        build_function(api, c, 1, names, method_kind=1, docs=docs)
    elif shape == 11:
        mk_attr(api, c, names.get("att"), type_shape(12), static=True)
        mk_attr(api, c, names.get("att"), type_shape(9, ref), static=False)
        build_function(api, c, 10, names, method_kind=1, docs=docs)
        build_function(api, c, 11, names, method_kind=2, docs=docs)
    return c


def build_enum(api, module, shape: int, names: Names, docs: bool = False):
    if not (0 <= shape < 3):
        raise OutOfRange
    if shape == 0:
        return None
    return mk_enum(api, module, names.get("enm"), [names.get("mem"), names.get("mem")] if shape == 2 else [],
                   doc="Enum doc." if docs else "")
