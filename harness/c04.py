"""C04 harness (Engine C): publicity through re-exports (name / alias / star / module / module alias).

The real _is_public + _check_publicity_in_reexports + _add_reexports run on a declaration `pkg.sub_a.<module>.<name>`
while the package's __init__ (pkg/sub_a) and the root __init__ (pkg) hold 0-2 imports from a pool that contains
look-alike modules and names.  One-directional oracle, as the statement is: a declaration that is private by convention
and that no __init__ re-exports must stay private; a declaration re-exported under a public name must be public."""
from __future__ import annotations

from typing import List

from harness.c06 import make_visitor
from harness.zoo import Cur, rd
from vlib import shim
from vlib.gapi import mk_api, mk_init_module
from vlib.hsupport import THOROUGH, OutOfRange, fixed, judge, note

SEL_LEN = 12
MODULES = ["m", "_m", "xm"]
NAMES = ["f", "_f"]
# import forms as the visitor records them: ("q", qualified_name, alias) or ("w", module_name)
FORMS = [
    ("q", "{M}.{N}", None), ("q", "{M}.{N}", "g"), ("q", "{M}.{N}", "_g"), ("w", "{M}"), ("q", "{M}", None), ("q", "{M}", "mm"),
    ("q", "{M}", "_mm"), ("q", "pkg.sub_a.{M}.{N}", None),
    # relative imports through the sub-package, as the root __init__ writes them: from .sub_a.m import f [as g] / from .sub_a.m import *
    ("q", "sub_a.{M}.{N}", None), ("q", "sub_a.{M}.{N}", "g"), ("w", "sub_a.{M}"),
]
IMPORT_MODULES = ["m", "_m", "xm", "other"]
IMPORT_NAMES = ["f", "_f", "xf"]


def _dec(sel):
    cur = Cur()
    mod = MODULES[rd(sel, cur, len(MODULES))]
    name = NAMES[rd(sel, cur, len(NAMES))]
    n = rd(sel, cur, 3 if THOROUGH else 2)
    imports = []
    for _ in range(n):
        where = ["pkg/sub_a", "pkg"][rd(sel, cur, 2)]
        form = FORMS[rd(sel, cur, len(FORMS))]
        im = IMPORT_MODULES[rd(sel, cur, len(IMPORT_MODULES))]
        iname = IMPORT_NAMES[rd(sel, cur, len(IMPORT_NAMES))] if "{N}" in form[1] else ""
        imports.append((where, form, im, iname))
    return mod, name, imports


def _denotes(where, form, im, iname, mod, name):
    """Does this import, written in package `where`, denote the declaration pkg.sub_a.<mod>.<name>? -> public name or None"""
    pkg = where.replace("/", ".")
    target_mod = f"pkg.sub_a.{mod}"
    if form[0] == "w":
        wq = form[1].format(M=im)
        resolved = [f"{pkg}.{wq}", wq]
        return name if target_mod in resolved else None
    q = form[1].format(M=im, N=iname)
    alias = form[2]
    if "{N}" in form[1]:
        resolved = [q, f"{pkg}.{q}"]
        if f"{target_mod}.{name}" in resolved:
            return alias or iname
        return None
    resolved = [q, f"{pkg}.{q}"]  # a module import
    if target_mod in resolved:
        return name if not (alias or im).startswith("_") else "_hidden"
    return None


def reexports(sel: List[int]) -> bool:
    """
    pre: len(sel) == SEL_LEN and fixed(sel)
    post: _
    """
    try:
        mod, name, imports = _dec(sel)
    except OutOfRange:
        return True
    shim.install()
    vis = make_visitor(False)
    api = vis.api
    by_pkg: dict[str, tuple[list, list]] = {}
    for where, form, im, iname in imports:
        q, w = by_pkg.setdefault(where, ([], []))
        if form[0] == "w":
            w.append(form[1].format(M=im))
        else:
            q.append((form[1].format(M=im, N=iname), form[2]))
    for where, (q, w) in by_pkg.items():
        mk_init_module(api, where, imports=q, wildcards=w)  # the repository's own _add_reexports fills the map
    vis.mypy_file = shim.mypy_file(f"pkg.sub_a.{mod}", f"pkg/sub_a/{mod}.py")
    stack_mod = vis._MyPyAstVisitor__declaration_stack[0]
    stack_mod.id, stack_mod.name = f"pkg/sub_a/{mod}", mod
    got = vis._is_public(name, f"pkg.sub_a.{mod}.{name}")
    note("oracle")
    public_names = [_denotes(w, f, im, iname, mod, name) for w, f, im, iname in imports]
    public_names = [p for p in public_names if p is not None]
    private_by_convention = name.startswith("_") or mod.startswith("_")
    labels = []
    if private_by_convention and not public_names and got:
        qn = f"pkg.sub_a.{mod}.{name}"
        suffix = any(f[0] == "q" and qn.endswith(f[1].format(M=im, N=iname)) for _w, f, im, iname in imports)
        coincidence = "imported-qualified-name-is-a-string-suffix-of-the-declaration" if suffix else "no-string-relation-to-any-import"
        labels.append(f"private-declaration-became-public-without-reexport:{coincidence}")
    if any(not p.startswith("_") for p in public_names) and not got:
        through = any(f[1].startswith("sub_a.") and _denotes(w, f, im, iname, mod, name) for w, f, im, iname in imports)
        only_through = through and not any(not f[1].startswith("sub_a.") and (_denotes(w, f, im, iname, mod, name) or "_").startswith("_") is False
                                           for w, f, im, iname in imports)
        labels.append("reexported-under-public-name-but-private" + (":relative-import-through-a-sub-package" if only_through else ""))
    return judge(labels)


def CANDIDATES(func: str):
    from harness.zoo import all_vectors

    for vec in all_vectors(_dec, SEL_LEN):
        yield [vec]
