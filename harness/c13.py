"""C13 harnesses (Engine C): docstring text reaches the right element intact."""
from __future__ import annotations

from typing import List

from harness.c02 import build_pkg
from harness.zoo import Cur, rd
from oracle.recogniser import StubSyntaxError, parse
from safeds_stubgen.docstring_parsing._docstring_parser import DocstringParser
from safeds_stubgen.docstring_parsing._helpers import get_full_docstring
from vlib import shim
from vlib.gapi import generate
from vlib.hsupport import OutOfRange, fixed, judge, note, untraced

SEL_LEN = 10


def _expected_docs(api):
    """(owner python path, python name, kind) -> list of sentinel texts that must sit in that element's comment."""
    want = {}
    for m in api.modules.values():
        for f in m.global_functions:
            if f.is_public:
                want[("", f.name)] = _fun_texts(f)
        for c in m.classes:
            if c.is_public and not c.inherits_from_exception:
                _class_texts(c, "", want)
        for e in m.enums:
            if e.docstring.description:
                want[("", e.name)] = [e.docstring.description]
    return want


def _fun_texts(f):
    out = []
    if f.docstring.description:
        out += [ln for ln in f.docstring.description.split("\n") if ln]
    for p in f.parameters:
        if p.docstring.description:
            out.append(f"@param {p.name} {p.docstring.description}")
    for r in f.result_docstrings:
        if r.description:
            out.append(f"@result {r.name} {r.description.split(chr(10))[0]}")
    for ex in f.docstring.examples:
        for ln in ex.split("\n"):
            if ln.startswith(">>>") or ln.startswith("..."):
                out.append("//" + ln[3:])
    return out


def _class_texts(c, owner, want):
    texts = [c.docstring.description] if c.docstring.description else []
    if c.constructor is not None:
        for p in c.constructor.parameters:
            if p.docstring.description:
                texts.append(f"@param {p.name} {p.docstring.description}")
    want[(owner, c.name)] = texts
    path = f"{owner}/{c.name}" if owner else c.name
    for a in c.attributes:
        if a.is_public and a.docstring.description:
            want[(path, a.name)] = [a.docstring.description]
    for f in c.methods:
        if f.is_public:
            want[(path, f.name)] = [ln for ln in f.docstring.description.split("\n") if ln] if f.is_property else _fun_texts(f)
    for inner in c.classes:
        if inner.is_public:
            _class_texts(inner, path, want)


def attachment(sel: List[int]) -> bool:
    """Every documentation text of the model sits in the comment of its own element, and nowhere else.

    pre: len(sel) == SEL_LEN and fixed(sel)
    post: _
    """
    try:
        cur = Cur()
        sel2 = list(sel[:4]) + [1] + list(sel[5:])  # documentation switched on
        api = build_pkg(sel2, cur, 0)
    except OutOfRange:
        return True
    fs, _, _ = generate(api, False)
    note("oracle")
    labels = []
    with untraced():
        want = _expected_docs(api)
        alltext = "\n".join(fs.files.values())
        for path, text in fs.files.items():
            try:
                f = parse(text)
            except StubSyntaxError as e:
                labels.append(f"stub-syntax:{e.msg.split(';')[0]}")
                continue
            if path.endswith("/m/m.sdsstub"):
                mod = api.modules.get("pkg/m")
                if mod is not None and mod.docstring:
                    for ln in [x for x in mod.docstring.split("\n") if x]:
                        if f.doc is None or ln not in f.doc:
                            labels.append("module-description-not-in-module-comment")
            for owner, d in f.all_decls():
                texts = want.get((owner, d.pyname))
                if texts is None:
                    continue
                for t in texts:
                    if d.doc is None or t not in d.doc:
                        labels.append(f"text-missing-from-own-comment:{d.kind}")
                    elif alltext.count(t) != 1:
                        labels.append(f"text-occurs-elsewhere-too:{d.kind}")
    return judge(labels)


# ------------------------------------------------------------------------------------------------- cache: inductive step
QNAMES = ["pkg.m.f", "pkg.m.g", "pkg.m.C", "pkg.m.C.__init__"]


class _Node:
    def __init__(self, text):
        from griffe.dataclasses import Docstring
        from griffe.enumerations import Parser

        self.docstring = Docstring(text, parser=Parser.numpy) if text is not None else None


def cache_step(sel: List[int]) -> bool:
    """One step from an ARBITRARY cache state that satisfies the invariant 'cached docstring == lookup(cached name)':
    a getter called with any qualified name returns the documentation of THAT name and re-establishes the invariant.

    pre: len(sel) == SEL_LEN and fixed(sel)
    post: _
    """
    try:
        cur = Cur()
        present = [rd(sel, cur, 3) for _ in QNAMES]  # per name: griffe knows no such node / node without docstring / with docstring
        cached = rd(sel, cur, len(QNAMES) + 1)  # arbitrary pre-state: nothing cached, or any of the names
        asked = rd(sel, cur, len(QNAMES))
        getter = rd(sel, cur, 2)
    except OutOfRange:
        return True
    from griffe.enumerations import Parser

    table = {q: (None if present[i] == 0 else _Node(f"Doc of {q}." if present[i] == 2 else None)) for i, q in enumerate(QNAMES)}
    lookup = lambda name: table[name].docstring if table.get(name) is not None else None  # noqa: E731
    p = DocstringParser.__new__(DocstringParser)
    p.parser = Parser.numpy
    p._get_griffe_node = lambda qname: table.get(qname)
    if cached == len(QNAMES):
        p._DocstringParser__cached_node, p._DocstringParser__cached_docstring = None, None
    else:
        p._DocstringParser__cached_node = QNAMES[cached]
        p._DocstringParser__cached_docstring = lookup(QNAMES[cached])  # the invariant
    q = QNAMES[asked]
    if getter == 0:
        doc = p.get_function_documentation(shim.mk(shim.N.FuncDef, fullname=q, name=q.split(".")[-1]))
        got = doc.description
    else:
        res = p.get_result_documentation(q)
        got = None if res == [] else "results"
    note("oracle")
    labels = [] if FRESH_OK else ["cache-invariant-not-established-by-init"]
    want = f"Doc of {q}." if present[asked] == 2 else ""
    if getter == 0 and got != want:
        labels.append("documentation-of-another-element-returned")
    node, ds = p._DocstringParser__cached_node, p._DocstringParser__cached_docstring
    if node is not None and ds is not lookup(node):
        labels.append("cache-invariant-broken")  # the next query for the cached name would get the wrong documentation
    return judge(labels)


def fresh_parser_state() -> bool:
    """The invariant holds initially: a new parser caches nothing (checked on the class's __init__ source)."""
    import ast
    import inspect
    import textwrap

    tree = ast.parse(textwrap.dedent(inspect.getsource(DocstringParser.__init__)))
    assigned = {t.attr: ast.unparse(s.value) for s in ast.walk(tree) if isinstance(s, (ast.Assign, ast.AnnAssign))
                for t in ([s.target] if isinstance(s, ast.AnnAssign) else s.targets) if isinstance(t, ast.Attribute)}
    return assigned.get("__cached_node") == "None" and assigned.get("__cached_docstring") == "None"


FRESH_OK = fresh_parser_state()


# --------------------------------------------------------------------------------------------- plaintext docstring pick
def plaintext_pick(sel: List[int]) -> bool:
    """get_full_docstring returns the declaration's docstring (its first statement, if that is a string expression).

    pre: len(sel) == SEL_LEN and fixed(sel)
    post: _
    """
    try:
        cur = Cur()
        is_class = rd(sel, cur, 2) == 1
        layout = rd(sel, cur, 5)
    except OutOfRange:
        return True
    shim.install()
    doc = shim.expr_stmt(shim.str_expr("The docstring.\n\n    Indented."))
    other = shim.expr_stmt(shim.str_expr("a later string statement"))
    filler = shim.expr_stmt(shim.call_expr())
    body, want = [
        ([doc, filler], "The docstring.\n\nIndented."),
        ([filler], ""),
        ([doc, filler, other], "The docstring.\n\nIndented."),
        ([doc, other], "The docstring.\n\nIndented."),
        ([doc], "The docstring.\n\nIndented."),
    ][layout]
    node = shim.class_def("K", "pkg.m.K", body) if is_class else shim.func_def("f", "pkg.m.f", [], body=body)
    got = get_full_docstring(node)
    note("oracle")
    if got != want:
        return judge(["plaintext:later-string-statement-taken-for-docstring" if layout in (2, 3) else "plaintext:docstring-differs"])
    return True


def CANDIDATES(func: str):
    import itertools

    if func == "result_comment_names":
        from harness.zoo import all_vectors

        for vec in all_vectors(_dec_result_names, SEL_LEN):
            yield [vec]
    elif func == "plaintext_pick":
        for sel in itertools.product(range(2), range(5)):
            yield [list(sel) + [0] * 8]
    elif func == "cache_step":
        for sel in itertools.product(range(3), range(3), range(3), range(3), range(5), range(4), range(2)):
            yield [list(sel) + [0] * 3]
    else:
        for sel in itertools.product(range(3), range(15), range(14), range(3), [1]):
            yield [list(sel) + [0] * 5]


# ----------------------------------------------------------------------- result descriptions: comment name == result name
def _dec_result_names(sel):
    cur = Cur()
    ret = rd(sel, cur, 4)  # return hint: none / int / (int, str) / (int, str, int)
    ndoc = 1 + rd(sel, cur, 3)
    docs = []
    for i in range(ndoc):
        named = rd(sel, cur, 2) == 1
        typed = rd(sel, cur, 2) == 1
        docs.append((f"r{i}" if named else "", typed))
    return ret, docs


def result_comment_names(sel: List[int]) -> bool:
    """Analyser and generator together: a function whose docstring documents 1-3 results (named or not, typed or not),
    with a return hint of 0-3 elements. Where the stub declares as many results as the docstring documents, the i-th
    '@result <name>' line of the comment carries the name of the i-th declared result (the description sits on its own
    result) and the description text occurs once.

    pre: len(sel) == SEL_LEN and fixed(sel)
    post: _
    """
    import safeds_stubgen.api_analyzer._ast_visitor as V
    from harness.c07 import _fun_text
    from harness.c14 import StubParser
    from safeds_stubgen.api_analyzer import API, TypeSourcePreference, TypeSourceWarning
    from safeds_stubgen.api_analyzer._api import Module
    from safeds_stubgen.api_analyzer._types import NamedType
    from safeds_stubgen.docstring_parsing import ResultDocstring
    from vlib import shim

    try:
        ret, docs = _dec_result_names(sel)
    except OutOfRange:
        return True
    shim.install()
    INT_, STR_ = shim.instance("builtins.int"), shim.instance("builtins.str")
    hint = [None, INT_, shim.tuple_type([INT_, STR_]), shim.tuple_type([INT_, STR_, INT_])][ret]
    node = shim.func_def("f", "pkg.m.f", [], ret=hint, annotated=True, body=[shim.expr_stmt(shim.mk(shim.N.EllipsisExpr))])
    doc_type = NamedType("float", "builtins.float")
    parser = StubParser({}, [ResultDocstring(type=doc_type if typed else None, description=f"description-{i}", name=name)
                             for i, (name, typed) in enumerate(docs)])
    api = API("", "pkg", "")
    vis = V.MyPyAstVisitor(parser, api, {}, TypeSourcePreference.CODE, TypeSourceWarning.IGNORE)
    vis._MyPyAstVisitor__declaration_stack.append(Module(id_="pkg/m", name="m"))
    vis.mypy_file = shim.mypy_file("pkg.m", "pkg/m.py")
    vis.enter_funcdef(node)
    fn = vis._MyPyAstVisitor__declaration_stack[-1]
    text = _fun_text(api, fn)
    note("oracle")
    labels = []
    with untraced():
        from oracle.recogniser import parse_decl

        try:
            d = parse_decl(text)
        except StubSyntaxError as e:
            return judge([f"stub-syntax:{e.msg.split(';')[0]}"])
        comment = [ln.strip().lstrip("*").strip() for ln in (d.doc or "").split("\n")]
        tags = [ln.split(" ", 2) for ln in comment if ln.startswith("@result ")]
        for i in range(len(docs)):
            if text.count(f"description-{i}") != 1:
                labels.append("result-description-not-exactly-once")
        if len(tags) == len(docs) == len(d.results):
            for (tag, (name, typed), r) in zip(tags, docs, d.results):
                if len(tag) < 3 or tag[1] != r.name:
                    kind = "unnamed-result-after-a-named-one" if not name and any(n for n, _ in docs) else "other"
                    labels.append(f"result-description-under-another-name-than-its-result:{kind}")
    return judge(sorted(set(labels)))

