"""C14 harness (Engine C): type-source preference settles only real conflicts; warnings never alter output."""
from __future__ import annotations

import logging
from typing import List

import safeds_stubgen.api_analyzer._ast_visitor as V
from harness.zoo import Cur, rd
from safeds_stubgen.api_analyzer import API, TypeSourcePreference, TypeSourceWarning
from safeds_stubgen.api_analyzer._api import Module
from safeds_stubgen.api_analyzer._types import NamedType, UnknownType
from safeds_stubgen.docstring_parsing import (
    AbstractDocstringParser,
    AttributeDocstring,
    ClassDocstring,
    FunctionDocstring,
    ParameterDocstring,
    ResultDocstring,
)
from vlib import shim
from vlib.hsupport import THOROUGH, OutOfRange, fixed, judge, note, untraced

SEL_LEN = 14
T1 = NamedType("int", "builtins.int")
T2 = NamedType("str", "builtins.str")
ANY = NamedType("Any", "typing.Any")
UNRES_FORM, UNRES_IMPORT = "unresolved:special-form", "unresolved:unimported"
MAXP = 2
MAXR = 2 if THOROUGH else 1


class StubParser(AbstractDocstringParser):
    """Nondeterministic stand-in for the griffe-based parsers: returns what the selectors say."""

    def __init__(self, params: dict, results: list) -> None:
        self.params, self.results = params, results

    def get_class_documentation(self, class_node):
        return ClassDocstring()

    def get_function_documentation(self, function_node):
        return FunctionDocstring()

    def get_parameter_documentation(self, function_qname, parameter_name, parent_class_qname):
        return self.params.get(parameter_name, ParameterDocstring())

    def get_attribute_documentation(self, parent_class_qname, attribute_name):
        return AttributeDocstring()

    def get_result_documentation(self, function_qname):
        return list(self.results)


def _mypy(t):
    return None if t is None else shim.instance(t.qname)


def decode(sel, cur):
    """Selector layout: n, preference, return hint, number of documented results, their types - then the parameters (so
    that the partitions can fix the leading selectors)."""
    n = 1 + rd(sel, cur, MAXP)
    pref = [TypeSourcePreference.CODE, TypeSourcePreference.DOCSTRING][rd(sel, cur, 2)]
    # UNRES_*: a return hint that is written but that mypy cannot resolve (-> "pd.DataFrame" without import: Any of kind
    # special_form, the hint is then `Any`; -> xml.nosuch.Thing of a submodule that cannot be found: Any from_unimported_type
    # without import name, the hint is then the unknown type)
    ret_hint = [None, T1, T2, (T1, T2), (T2, T1), UNRES_FORM, UNRES_IMPORT][rd(sel, cur, 7)]
    plain_only = isinstance(ret_hint, tuple) and not THOROUGH  # quick tier: tuple return hints with the plainest parameter list only
    if plain_only and n > 1:
        raise OutOfRange
    nres = rd(sel, cur, (2 if isinstance(ret_hint, tuple) else MAXR) + 1)
    res_docs = [[None, T1, T2][rd(sel, cur, 3)] for _ in range(nres)]
    params = []
    for i in range(n):
        if plain_only:
            hint, doc, doc_default, code_default = None, None, "", False
        elif i == 0 or THOROUGH:
            hint = [None, T1, T2][rd(sel, cur, 3)]
            doc = [None, T1, T2][rd(sel, cur, 3)]
            doc_default = ["", "5"][rd(sel, cur, 2)] if doc is not None else ""
            code_default = rd(sel, cur, 2) == 1
        else:  # quick tier: the second parameter ranges over 4 combinations
            hint = [None, T1][rd(sel, cur, 2)]
            doc = [None, T2][rd(sel, cur, 2)]
            doc_default, code_default = "", False
        params.append((f"p{i}", hint, doc, doc_default, code_default))
    return params, ret_hint, res_docs, pref


def run(params, ret_hint, res_docs, pref, warn):
    shim.install()
    args = [shim.argument(n, shim.ArgKind.ARG_OPT if cd else shim.ArgKind.ARG_POS, annotation=_mypy(h),
                          initializer=shim.int_expr(1) if cd else None) for n, h, d, dd, cd in params]
    un_ret = None
    if ret_hint in (UNRES_FORM, UNRES_IMPORT):
        import mypy.types as RT

        # (mypy records no missing_import_name for a type of a missing submodule: import xml.nosuch -> xml.nosuch.Thing)
        ret = shim.any_type(RT.TypeOfAny.special_form if ret_hint == UNRES_FORM else RT.TypeOfAny.from_unimported_type)
        un_ret = shim.unbound("pd.DataFrame" if ret_hint == UNRES_FORM else "xml.nosuch.Thing")
    else:
        ret = shim.tuple_type([_mypy(t) for t in ret_hint]) if isinstance(ret_hint, tuple) else _mypy(ret_hint)
    node = shim.func_def("f", "pkg.m.f", args, ret=ret, annotated=True, unanalyzed_ret=un_ret,
                         body=[shim.expr_stmt(shim.mk(shim.N.EllipsisExpr))])
    # griffe reports the default of the signature (as source text) when the docstring itself names none
    parser = StubParser({n: ParameterDocstring(type=d, default_value=dd or ("1" if cd and d is not None else ""), description="")
                         for n, h, d, dd, cd in params},
                        [ResultDocstring(type=t, description="", name="") for t in res_docs])
    api = API("", "pkg", "")
    vis = V.MyPyAstVisitor(parser, api, {}, pref, warn)
    vis._MyPyAstVisitor__declaration_stack.append(Module(id_="pkg/m", name="m"))
    vis.mypy_file = shim.mypy_file("pkg.m", "pkg/m.py")
    logged = []
    saved = V.logging.warning
    # only discrepancy warnings are the subject ("Could not parse a type ..." is logged under either setting)
    V.logging.warning = lambda msg, *a, **k: logged.append(str(msg)) if str(msg).startswith("Different type") else None
    try:
        vis.enter_funcdef(node)
    finally:
        V.logging.warning = saved
    fn = vis._MyPyAstVisitor__declaration_stack[-1]
    return fn, logged


def reconcile(sel: List[int]) -> bool:
    """
    pre: len(sel) == SEL_LEN and fixed(sel)
    post: _
    """
    try:
        params, ret_hint, res_docs, pref = decode(sel, Cur())
    except OutOfRange:
        return True
    fw, log_w = run(params, ret_hint, res_docs, pref, TypeSourceWarning.WARN)
    fi, log_i = run(params, ret_hint, res_docs, pref, TypeSourceWarning.IGNORE)
    note("oracle")
    labels = []
    with untraced():
        # (a) warnings never alter the output
        if fw.to_dict() != fi.to_dict() or [p.to_dict() for p in fw.parameters] != [p.to_dict() for p in fi.parameters] \
                or [r.to_dict() for r in fw.results] != [r.to_dict() for r in fi.results]:
            labels.append("warning-setting-changes-output")
        if log_i:
            labels.append("warning-logged-although-ignored")
        # (b) parameter types per the table; defaults are not the subject of the preference
        conflicts = 0
        for p, (name, hint, doc, dd, cd) in zip(fw.parameters, params):
            why = "parameter-without-type-hint" if hint is None else "docstring-preference" if pref == TypeSourcePreference.DOCSTRING else "code-preference"
            if hint is None and cd:
                hint = T1  # the type the analyser infers from the literal default (= 1) counts as the code's type
            if hint is not None and doc is not None:
                want = hint if pref == TypeSourcePreference.CODE else doc
                conflicts += hint != doc
            else:
                want = hint if hint is not None else doc
            if p.type != want:
                labels.append("parameter-type-not-per-preference-table")
            if cd and not (p.is_optional and str(p.default_value) == "1"):
                labels.append(f"code-default-overwritten:{why}")
            if not cd and p.is_optional:
                labels.append(f"required-parameter-became-optional:{why}")
        # (c) result types per the table
        if ret_hint in (UNRES_FORM, UNRES_IMPORT):
            ret_hint = ANY if ret_hint == UNRES_FORM else UnknownType()
        code_results = list(ret_hint) if isinstance(ret_hint, tuple) else ([ret_hint] if ret_hint is not None else [])
        expected = []  # (position in the documentation/hint, wanted type, known from the docstring only)
        for i in range(max(len(code_results), len(res_docs))):
            c = code_results[i] if i < len(code_results) else None
            d = res_docs[i] if i < len(res_docs) else None
            if c is not None and d is not None:
                want = c if pref == TypeSourcePreference.CODE else d
                conflicts += c != d
            else:
                want = c if c is not None else d
            if want is not None:
                expected.append((i, want, c is None))
        # a documented result without any type yields no result; the others keep their order
        if len(fw.results) < len(expected):
            labels.append("result-missing")
        elif len(fw.results) > len(expected):
            labels.append("result-without-source")
        else:
            for r, (i, want, doc_only) in zip(fw.results, expected):
                if r.type != want:
                    labels.append("result-type-not-per-preference-table")
                elif doc_only and r.name != f"result_{i + 1}":
                    labels.append("docstring-only-result-not-named-result_n")
        # (d) a warning exactly for every real conflict
        if len(log_w) != conflicts:
            labels.append("warnings-differ-from-conflicts")
    return judge(labels)


def CANDIDATES(func: str):
    from harness.zoo import all_vectors

    for vec in all_vectors(lambda s: decode(s, Cur()), SEL_LEN):
        yield [vec]
