"""C09 harnesses (Engine C): conversion applied at every site with the right kind; @PythonName / @PythonModule present
exactly when the rendered name differs; Python names recoverable and nothing else changes between the two settings."""
from __future__ import annotations

from typing import List

import safeds_stubgen.stubs_generator._generate_stubs as GS
import safeds_stubgen.stubs_generator._stub_string_generator as SG
from harness.c02 import build_pkg
from harness.sites import Tagged, analyse, site_labels
from harness.zoo import Cur, rd
from oracle.recogniser import StubSyntaxError, parse
from vlib.gapi import generate
from vlib.hsupport import OutOfRange, fixed, judge, note, untraced

SEL_LEN = 10


def sites(sel: List[int]) -> bool:
    """
    pre: len(sel) == SEL_LEN and fixed(sel)
    post: _
    """
    try:
        api = build_pkg(sel, Cur(), 0)
    except OutOfRange:
        return True
    labels = site_labels(api)
    note("oracle")
    return judge([l for l in labels if l.startswith(("conv:", "kind:", "order:", "tagged-syntax:"))])


class Identity:
    """Stub mode 2: the conversion kernel returns its argument (the 'name does not differ' branch of every site)."""

    def __enter__(self):
        self.saved = (SG._convert_name_to_convention, GS._convert_name_to_convention)
        SG._convert_name_to_convention = GS._convert_name_to_convention = lambda name, conv, is_class_name=False: name
        return self

    def __exit__(self, *a):
        SG._convert_name_to_convention, GS._convert_name_to_convention = self.saved


def _untag(tok: str) -> str:
    esc, kind, _ = analyse(tok)
    inner = tok[2:-2] if esc else tok
    return inner[2:-2] if kind else inner


def annotations(sel: List[int]) -> bool:
    """
    pre: len(sel) == SEL_LEN and fixed(sel)
    post: _
    """
    try:
        cur = Cur()
        mode = 1 if rd(sel, cur, 2) == 1 else 0  # concrete from here on
        api = build_pkg(sel, cur, 1)
    except OutOfRange:
        return True
    if mode == 0:
        with Identity():
            fs, _, _ = generate(api, True)
    else:
        with Tagged():
            fs, _, _ = generate(api, True)
    note("oracle")
    labels = []
    with untraced():
        for path, text in fs.files.items():
            try:
                f = parse(text)
            except StubSyntaxError as e:
                labels.append(f"stub-syntax:{e.msg.split(';')[0]}")
                continue
            if mode == 0:
                if f.python_module is not None:
                    labels.append("annot:PythonModule-although-path-equal")
            else:
                if f.python_module is None:
                    labels.append("annot:PythonModule-missing")
                elif _untag(f.package) != f.python_module and ".".join(_untag(s) for s in f.package.split(".")) != f.python_module:
                    labels.append("annot:PythonModule-wrong-original")
            for _owner, d in f.all_decls():
                site = {"variant": "enum-member", "fun": "function", "attr": "attribute"}.get(d.kind, d.kind)
                if d.kind == "enum":
                    continue  # enum names are never converted (known finding of the sites harness); no annotation due
                items = [(site, d.name, d.python_name)] + [("parameter", p.name, p.python_name) for p in d.params or []]
                for s, name, pyname in items:
                    if mode == 0 and pyname is not None:
                        labels.append(f"annot:PythonName-although-equal:{s}")
                    if mode == 1:
                        if pyname is None:
                            labels.append(f"annot:PythonName-missing:{s}")
                        elif _untag(name) != pyname:
                            labels.append(f"annot:PythonName-wrong-original:{s}")
    return judge(labels)


def _norm(s: str) -> str:
    return s.replace("_", "").lower()


def _type_sig(t) -> str:
    return _norm(t.render()) if t is not None else ""


def _decl_sig(d) -> tuple:
    return (
        d.kind, d.pyname, d.static, tuple(sorted(d.todos)),
        tuple((p.pyname, _type_sig(p.type), p.default) for p in d.params) if d.params is not None else None,
        tuple((_norm(r.name), _type_sig(r.type)) for r in d.results),
        _type_sig(d.type), tuple(_type_sig(s) for s in d.supers),
        tuple((_norm(tp.name), tp.variance, _type_sig(tp.bound)) for tp in d.tparams),
        d.doc is not None, tuple(_decl_sig(m) for m in d.members),
    )


def relational(sel: List[int]) -> bool:
    """
    pre: len(sel) == SEL_LEN and fixed(sel)
    post: _
    """
    try:
        cur = Cur()
        style = rd(sel, cur, 2)
        api_a = build_pkg(sel, Cur(1), style)
        api_b = build_pkg(sel, Cur(1), style)
    except OutOfRange:
        return True
    fa, _, _ = generate(api_a, False)
    files_a = dict(fa.files)
    fb, _, _ = generate(api_b, True)
    files_b = dict(fb.files)
    note("oracle")
    labels = []
    with untraced():
        if set(files_a) != set(files_b):
            labels.append("relational:file-set-differs")
        for path in sorted(set(files_a) & set(files_b)):
            try:
                ta, tb = parse(files_a[path]), parse(files_b[path])
            except StubSyntaxError as e:
                labels.append(f"stub-syntax:{e.msg.split(';')[0]}")
                continue
            if ta.python_module is not None:
                labels.append("relational:PythonModule-with-conversion-off")
            if ta.pymodule != tb.pymodule:
                labels.append("relational:python-module-not-recoverable")
            if (tb.python_module is not None) != (tb.package != tb.pymodule):
                labels.append("relational:PythonModule-iff-path-differs")
            if sorted((_norm(s), _norm(n)) for s, n in ta.imports) != sorted((_norm(s), _norm(n)) for s, n in tb.imports):
                labels.append("relational:imports-differ")
            if [_decl_sig(d) for d in ta.decls] != [_decl_sig(d) for d in tb.decls]:
                labels.append("relational:declarations-differ-beyond-identifiers")
            for (_, da), (_, db) in zip(ta.all_decls(), tb.all_decls()):
                if da.python_name is not None:
                    labels.append("relational:PythonName-with-conversion-off")
                if (db.python_name is not None) != (db.name != db.pyname):
                    labels.append("relational:PythonName-iff-name-differs")
    return judge(labels)


def CANDIDATES(func: str):
    import itertools

    for sel in itertools.product(range(2), range(3), range(15), range(14), range(3), range(2)):
        if func == "sites":
            yield [list(sel[1:]) + [0] * 5]
        else:
            yield [list(sel) + [0] * 4]


TOP_MEMBERS = [None, ("attr", "n_x"), ("method", "n_x"), ("method", "getX"), ("attr", "get_x")]
BASE_MEMBERS = [("method", "n_x"), ("property", "n_x"), ("method", "get_x"), ("method", "getX")]


def relational_inherited(sel: List[int]) -> bool:
    """Members inherited from a private ancestor: the set of recovered Python names of the public subclass is the same
    under both naming settings (which members are inlined must not depend on how names are spelled in the stub).

    pre: len(sel) == SEL_LEN and fixed(sel)
    post: _
    """
    try:
        cur = Cur()
        top = TOP_MEMBERS[rd(sel, cur, len(TOP_MEMBERS))]
        base = [BASE_MEMBERS[i] for i in range(len(BASE_MEMBERS)) if rd(sel, cur, 2) == 1]
        if not base:
            raise OutOfRange
    except OutOfRange:
        return True
    from vlib.gapi import INT, mk_api, mk_attr, mk_class, mk_function, mk_module, self_param

    def build():
        api = mk_api()
        m = mk_module(api, "pkg/m")
        b = mk_class(api, m, "_Base", public=False)
        for kind, name in base:
            mk_function(api, b, name, params=[self_param()], results=[("result_1", INT)], prop=kind == "property", public=False)
        t = mk_class(api, m, "Top", supers=["pkg.m._Base"])
        if top is not None:
            if top[0] == "attr":
                mk_attr(api, t, top[1], INT)
            else:
                mk_function(api, t, top[1], params=[self_param()], results=[("result_1", INT)])
        return api, m

    def members(convert):
        api, m = build()
        text = SG.StubsStringGenerator(api=api, convert_identifiers=convert)(m)[0]
        f = parse(text)
        d = [x for x in f.decls if x.pyname == "Top"][0]
        return sorted(mm.pyname for mm in d.members)

    off = members(False)
    on = members(True)
    note("oracle")
    if off != on:
        return judge(["relational:inherited-member-set-depends-on-naming-setting"])
    return True
