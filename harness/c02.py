"""C02 harnesses (Engine C): whole-output grammar on the model zoo, and site coverage with tagging stubs."""
from __future__ import annotations

from typing import List

from harness.zoo import N_CLS_SHAPES, N_FUN_SHAPES, Cur, Names, build_class, build_enum, build_function, rd
from oracle.recogniser import StubSyntaxError, parse
from safeds_stubgen.api_analyzer._types import NamedType
from vlib.gapi import generate, mk_api, mk_class, mk_init_module, mk_module
from vlib.hsupport import THOROUGH, OutOfRange, fixed, judge, note, untraced

SEL_LEN = 10


def build_pkg(sel: List[int], cur: Cur, style: int):
    """Package pkg: module pkg/m (0-1 functions, 0-1 classes, 0-2 enum shapes, docstring y/n), helper module pkg/n
    with a public class (superclass / type reference target), optional re-export of m's declarations by pkg/__init__."""
    names = Names(style)
    api = mk_api()
    reexport = rd(sel, cur, 3)  # 0 none, 1 by name, 2 with alias
    fshape = rd(sel, cur, N_FUN_SHAPES + 1) - 1
    cshape = rd(sel, cur, N_CLS_SHAPES + 1) - 1
    if not THOROUGH and fshape >= 0 and cshape >= 0:
        raise OutOfRange  # quick tier: function shapes and class shapes are varied one at a time
    eshape = rd(sel, cur, 3)
    docs = rd(sel, cur, 2) == 1
    if not THOROUGH and ((eshape == 0 and docs) or (eshape > 0 and not docs)):
        raise OutOfRange
    fname = names.get("fun") if fshape >= 0 else None
    cname = names.get("cls") if cshape >= 0 else None
    if reexport:
        imports = []
        if fname:
            imports.append((f"pkg.m.{fname}", "fz" if reexport == 2 else None))
        if cname:
            imports.append((f"pkg.m.{cname}", "Cz" if reexport == 2 else None))
        mk_init_module(api, "pkg", imports=imports)
    n = mk_module(api, "pkg/n")
    other = mk_class(api, n, names.get("cls"))
    m = mk_module(api, "pkg/m", docstring="Module doc.\n\nMore." if docs else "")
    ref = NamedType(other.name, "pkg.n." + other.name)
    if fshape >= 0:
        build_function(api, m, fshape, names, docs=docs, cls_ref=ref, name=fname)
    if cshape >= 0:
        build_class(api, m, cshape, names, docs=docs, other=other, name=cname)
    build_enum(api, m, eshape, names, docs=docs)
    return api


def grammar(sel: List[int]) -> bool:
    """
    pre: len(sel) == SEL_LEN and fixed(sel)
    post: _
    """
    try:
        cur = Cur()
        convert = rd(sel, cur, 2) == 1
        style = rd(sel, cur, 2)  # plain / snake_case identifiers (keywords: see the site-coverage harness)
        api = build_pkg(sel, cur, style)
    except OutOfRange:
        return True
    fs, _, _ = generate(api, convert)
    note("oracle")
    labels = []
    with untraced():  # the oracle is not the code under test; its inputs are concrete on every path
        for path, text in fs.files.items():
            try:
                parse(text)
            except StubSyntaxError as e:
                labels.append(f"syntax:{e.msg.split(';')[0]}")
    return judge(labels)


# ------------------------------------------------------------------------------------------------------- site coverage
def sites(sel: List[int]) -> bool:
    """
    pre: len(sel) == SEL_LEN and fixed(sel)
    post: _
    """
    from harness.sites import site_labels

    try:
        cur = Cur()
        api = build_pkg(sel, cur, 0)
    except OutOfRange:
        return True
    labels = site_labels(api)
    note("oracle")
    return judge([l for l in labels if l.startswith(("esc:", "tagged-syntax:"))])


# ---------------------------------------------------------------------------------- default texts taken from docstrings
# What griffe reports as the default of a documented parameter: the source text of the default in the signature
# (numpydoc/google/sphinx alike) or the text after "default" in the docstring. The analyser stores that text as the
# parameter's default whenever the docstring supplies the parameter's type.
DOC_DEFAULTS = ["1", "-2.5", '"t"', "None", "True", "False", "'t'", "''", "np.nan", "auto", "[1, 2]", "'it\\'s'", "1e-3"]
DOC_DEFAULT_KIND = {"None": "python-constant", "True": "python-constant", "False": "python-constant", "'t'": "single-quoted-string",
                    "''": "single-quoted-string", "np.nan": "not-a-literal", "auto": "not-a-literal", "[1, 2]": "not-a-literal",
                    "'it\\'s'": "single-quoted-string-with-escape"}
DOC_DEFAULT_WANT = {"1": "1", "-2.5": "-2.5", '"t"': '"t"', "None": "null", "True": "true", "False": "false", "'t'": '"t"', "''": '""',
                    "1e-3": "1e-3"}


def docstring_defaults(sel: List[int]) -> bool:
    """A parameter whose default is the text a docstring parser reported: the stub parses and the default is the
    Safe-DS literal with the same value.

    pre: len(sel) == SEL_LEN and fixed(sel)
    post: _
    """
    from vlib.gapi import FLOAT, INT, PA, STR, mk_function

    try:
        cur = Cur()
        convert = rd(sel, cur, 2) == 1
        text = DOC_DEFAULTS[rd(sel, cur, len(DOC_DEFAULTS))]
        kind = [PA.POSITION_OR_NAME, PA.NAME_ONLY][rd(sel, cur, 2)]
        owner_is_class = rd(sel, cur, 2) == 1
    except OutOfRange:
        return True
    api = mk_api()
    m = mk_module(api, "pkg/m")
    ty = STR if text[0] in "'\"" else FLOAT if "." in text or "e" in text else INT
    param = {"name": "p", "type_": ty, "kind": kind, "optional": True, "default": text}
    if owner_is_class:
        c = mk_class(api, m, "K")
        mk_function(api, c, "__init__", params=[{"name": "self", "kind": PA.IMPLICIT}, param])
    else:
        mk_function(api, m, "f", params=[param])
    fs, _, _ = generate(api, convert)
    note("oracle")
    labels = []
    with untraced():
        for path, text_ in fs.files.items():
            try:
                f = parse(text_)
            except StubSyntaxError:
                labels.append(f"syntax:docstring-default-text:{DOC_DEFAULT_KIND.get(text, 'number-or-double-quoted-string')}")
                continue
            for _, d in f.all_decls():
                for prm in d.params:
                    if prm.pyname == "p" and text in DOC_DEFAULT_WANT and prm.default != DOC_DEFAULT_WANT[text]:
                        labels.append(f"docstring-default-value-changed:{DOC_DEFAULT_KIND.get(text, 'number-or-double-quoted-string')}")
    return judge(labels)


def CANDIDATES(func: str):
    import itertools

    if func == "docstring_defaults":
        for sel in itertools.product(range(2), range(len(DOC_DEFAULTS)), range(2), range(2)):
            yield [list(sel) + [0] * 6]
        return
    if func == "sites":
        for sel in itertools.product(range(3), range(15), range(14), range(3), range(2)):
            yield [list(sel) + [0] * 5]
    else:
        for sel in itertools.product(range(2), range(2), range(3), range(15), range(14), range(3), range(2)):
            yield [list(sel) + [0] * 3]
