"""C01 harness (Engine C): the docstring type translation terminates and raises nothing.

`DocstringParser._griffe_annotation_to_api_type` turns the type text of a parameter / attribute / result documentation
into an API type. It walks unions with a `while` loop and recurses through subscripts, tuples, lists and boolean
operators: the harness quantifies over a grammar of type texts (members joined by `|`, `or`, `,`; members are names,
constants, subscripts, tuples, `optional`; numpydoc default suffix) for the three griffe styles. The real griffe parses
the text (`griffe.parse_annotation`), the real method translates it.

Non-termination is observed with an interval timer (a translation takes milliseconds; BUDGET seconds without an answer
count as "does not terminate" and the input is replayed natively with the same budget before anything is reported).
"""
from __future__ import annotations

import signal
from typing import List

from harness.zoo import Cur, rd
from vlib.hsupport import THOROUGH, OutOfRange, fixed, judge, note, untraced

SEL_LEN = 10
BUDGET = 10.0
ATOMS = ["int", "None", "5", "True", "...", "'a'", "Foo", "list[int]", "(int, str)", "optional", "a.b.C", "dict[str, 1]", "1.5", "-1"]
MID = ["int", "None", "5", "Foo", "'a'", "list[int]", "optional"]
SMALL = ["int", "5", "None", "Foo"]
JOIN = [" | ", " or ", ", "]
SUFFIX = ["", ", default 3", ", optional"]
STYLES = ["numpy", "google", "sphinx"]


class _Budget(Exception):
    pass


def _decode(sel):
    """All shape restrictions are decided before the members are read, so that rejected shapes cost one path each."""
    cur = Cur()
    style = STYLES[rd(sel, cur, len(STYLES))]
    n = 1 + rd(sel, cur, 4)
    join = JOIN[rd(sel, cur, len(JOIN))]
    if n == 1 and join != JOIN[0]:
        raise OutOfRange
    if style != "numpy" and n > 2 and not THOROUGH:
        raise OutOfRange  # the style only decides whether ', default ...' is cut off before parsing
    suffix = SUFFIX[rd(sel, cur, len(SUFFIX))]
    wrap = rd(sel, cur, 3)  # the whole text as it is / as the argument of list[...] / in parentheses followed by ' | None'
    if n > 2 and (suffix or wrap) and not (THOROUGH and n == 3 and not suffix):
        raise OutOfRange
    if not THOROUGH:  # quick tier: suffix and wrapping only for `|` unions, wrapping only for numpydoc, no 4-member comma lists
        if (suffix or wrap) and n == 2 and join != JOIN[0]:
            raise OutOfRange
        if style != "numpy" and wrap:
            raise OutOfRange
        if n == 4 and join == JOIN[2]:
            raise OutOfRange
    pool = (ATOMS if THOROUGH else ATOMS[:12]) if n <= 2 or (THOROUGH and n == 3) else MID if n == 3 else SMALL
    members = [pool[rd(sel, cur, len(pool))] for _ in range(n)]
    text = join.join(members)
    if wrap == 1:
        text = f"list[{text}]"
    elif wrap == 2:
        text = f"({text}) | None"
    return style, text + suffix


def _parser(style: str):
    from pathlib import Path

    import safeds_stubgen.api_analyzer  # noqa: F401  (import order: api_analyzer before docstring_parsing)
    from griffe import Docstring, Function, Module, Parser
    from safeds_stubgen.docstring_parsing._docstring_parser import DocstringParser

    p = DocstringParser.__new__(DocstringParser)
    p.parser = {"numpy": Parser.numpy, "google": Parser.google, "sphinx": Parser.sphinx}[style]
    mod = Module("m", filepath=Path("/src/pkg/m.py"))
    fn = Function("f")
    mod.set_member("f", fn)
    return p, Docstring("doc", parent=fn, parser=p.parser)


def translate(style: str, text: str):
    """The real translation under the time budget. Returns (outcome, detail)."""
    from safeds_stubgen.api_analyzer._types import AbstractType

    p, doc = _parser(style)

    def on_alarm(*_):
        raise _Budget

    import safeds_stubgen.docstring_parsing._docstring_parser as DP

    real_parse = DP.parse_annotation

    def native_parse(annotation, docstring):  # griffe's own parser is not the subject: it runs outside the tracer
        with untraced():
            return real_parse(annotation, docstring)

    old = signal.signal(signal.SIGALRM, on_alarm)
    signal.setitimer(signal.ITIMER_REAL, BUDGET, 1.0)  # repeating: an alarm that lands inside the tracer may be swallowed
    DP.parse_annotation = native_parse
    try:
        r = p._griffe_annotation_to_api_type(text, doc)
    except _Budget:
        return "does-not-terminate", f"no answer within {BUDGET:.0f}s"
    finally:
        DP.parse_annotation = real_parse
        signal.setitimer(signal.ITIMER_REAL, 0)
        signal.signal(signal.SIGALRM, old)
    if r is not None and not isinstance(r, AbstractType):
        return "result-is-no-api-type", type(r).__name__
    if r is not None:
        r.to_dict()
    return "ok", ""


def docstring_types(sel: List[int]) -> bool:
    """
    pre: len(sel) == SEL_LEN and fixed(sel)
    post: _
    """
    try:
        style, text = _decode(sel)
    except OutOfRange:
        return True
    outcome, _ = translate(style, text)
    note("oracle")
    return judge([] if outcome == "ok" else [f"docstring-type:{outcome}"])


def CANDIDATES(func: str):
    from harness.zoo import all_vectors

    for vec in all_vectors(_decode, SEL_LEN):
        yield [vec]
