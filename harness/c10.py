"""C10 harnesses (Engine C): stub files are laid out by module path inside the output directory."""
from __future__ import annotations

from typing import List

import safeds_stubgen.api_analyzer.cli._cli as CLI
from harness.zoo import Cur, rd
from oracle.recogniser import StubSyntaxError, parse
from safeds_stubgen.api_analyzer._types import NamedType
from vlib.gapi import INT, FakePath, generate, mk_api, mk_class, mk_function, mk_init_module, mk_module
from vlib.hsupport import OutOfRange, fixed, judge, note, untraced

SEL_LEN = 12
MOD_IDS = ["pkg/m", "pkg/_m", "pkg/deep/m", "pkg/_priv/m", "pkg/deep/deeper/m_x"]
OUTS = ["/out", "out", "/abs/out_dir/", "rel/out"]


def build(sel: List[int], cur: Cur):
    api = mk_api()
    mid = MOD_IDS[rd(sel, cur, len(MOD_IDS))]
    reexport = rd(sel, cur, 4)  # 0 none, 1 by the parent package, 2 by the root package, 3 by the root package with alias
    second = rd(sel, cur, 2) == 1  # a second module
    foreign = rd(sel, cur, 3)  # number of classes of other libraries referenced (same foreign module)
    mq = mid.replace("/", ".")
    parent = "/".join(mid.split("/")[:-1])
    if reexport == 1:
        mk_init_module(api, parent, imports=[(f"{mq}.f", None), (f"{mq}.C", None)])
    elif reexport >= 2:
        mk_init_module(api, "pkg", imports=[(f"{mq}.f", "f_alias" if reexport == 3 else None), (f"{mq}.C", "CAlias" if reexport == 3 else None)])
    m = mk_module(api, mid)
    types = [INT, NamedType("Ext", "ext.lib.Ext"), NamedType("Ext2", "ext.lib.Ext2")]
    mk_function(api, m, "f", params=[{"name": f"p{i}", "type_": types[i]} for i in range(foreign + 1)], results=[("result_1", INT)])
    mk_class(api, m, "C")
    if second:
        n = mk_module(api, "pkg/n_mod")
        mk_function(api, n, "g", params=[{"name": "p", "type_": NamedType("Ext", "ext.lib.Ext")}] if foreign else [],
                    results=[("result_1", INT)])
    return api


def layout(sel: List[int]) -> bool:
    """
    pre: len(sel) == SEL_LEN and fixed(sel)
    post: _
    """
    try:
        cur = Cur()
        convert = rd(sel, cur, 2) == 1
        out = OUTS[rd(sel, cur, len(OUTS))]
        api = build(sel, cur)
    except OutOfRange:
        return True
    fs, data, gen = generate(api, convert, out=out)
    note("oracle")
    labels = []
    with untraced():
        out_p = FakePath(out)
        per_path: dict[str, list] = {}
        for path, mode, text in fs.writes:
            per_path.setdefault(path, []).append((mode, text))
        for path, text in fs.files.items():
            # POSIX leaves a leading '//' implementation-defined; Linux resolves it like '/', so it is normalised here
            p = FakePath("/" + path.lstrip("/")) if path.startswith("//") else FakePath(path)
            try:
                rel = p.relative_to(out_p)
            except ValueError:
                labels.append("file-outside-output-directory")
                continue
            if p.suffix != ".sdsstub":
                labels.append("unexpected-file-suffix")
            try:
                f = parse(text)
            except StubSyntaxError as e:
                labels.append(f"stub-syntax:{e.msg.split(';')[0]}")
                continue
            want_dir = tuple(f.pymodule.split("."))
            is_reexport_file = len(f.decls) == 1 and f.decls[0].pyname == p.stem and tuple(rel.parts[:-1]) == want_dir
            # directory spells the announced Python module path, segment by segment
            if tuple(rel.parts[:-1]) != want_dir:
                labels.append("directory-differs-from-announced-module-path")
            # base name: the module (last path segment) or the single re-exported declaration, no leading underscores
            names_ok = {want_dir[-1].lstrip("_")} | {d.pyname.lstrip("_") for d in f.decls if len(f.decls) == 1} | {d.name.lstrip("_") for d in f.decls if len(f.decls) == 1}
            if p.stem.startswith("_"):
                labels.append("base-name-with-leading-underscore")
            if p.stem not in names_ok and not is_reexport_file:
                labels.append("base-name-is-neither-module-nor-declaration")
            # writes: one 'w' per path, then only appends of placeholder class text
            ws = per_path.get(path, [])
            if [m for m, _ in ws].count("w") != 1 or (ws and ws[0][0] != "w"):
                labels.append("path-written-more-than-once")
    return judge(labels)


SRC_NAMES = ["pkg", "my_lib", "lib-1.2", "a.b.c", "v2.0"]


def api_file_name(sel: List[int]) -> bool:
    """_run_stub_generator writes the inventory to <out>/<source directory name>__api.json, before generating stubs.

    pre: len(sel) == SEL_LEN and fixed(sel)
    post: _
    """
    try:
        cur = Cur()
        name = SRC_NAMES[rd(sel, cur, len(SRC_NAMES))]
        out = OUTS[rd(sel, cur, len(OUTS))]
        wrapper = rd(sel, cur, 2) == 1  # the source directory merely contains the package (get_api moves its root there)
    except OutOfRange:
        return True
    events = []

    class Api:
        # what get_api records: the name of the directory it finally analysed (root.stem), not the -s directory
        package = "inner_pkg" if wrapper else name.rsplit(".", 1)[0] if "." in name else name
        distribution = ""
        version = ""

        def to_json_file(self, path):
            events.append(("json", str(path)))

    saved = (CLI.get_api, CLI.StubsStringGenerator, CLI.generate_stub_data, CLI.create_stub_files)
    CLI.get_api = lambda **kw: Api()
    CLI.StubsStringGenerator = lambda api, convert_identifiers: events.append(("gen", convert_identifiers)) or "G"
    CLI.generate_stub_data = lambda stubs_generator, out_path: events.append(("data", str(out_path))) or []
    CLI.create_stub_files = lambda stubs_generator, stubs_data, out_path: events.append(("files", str(out_path)))
    try:
        CLI._run_stub_generator(FakePath("/src") / name, FakePath(out), None, False, True, None, None)
    finally:
        CLI.get_api, CLI.StubsStringGenerator, CLI.generate_stub_data, CLI.create_stub_files = saved
    note("oracle")
    labels = []
    want = str(FakePath(out) / f"{name}__api.json")
    if not events or events[0][0] != "json":
        labels.append("api-file-not-written-first")
    elif events[0][1] != want:
        labels.append("api-file-name-differs-from-source-directory-name" + (":dotted-name" if "." in name else ""))
    if [e[0] for e in events] != ["json", "gen", "data", "files"]:
        labels.append("cli-stage-order")
    return judge(labels)


def CANDIDATES(func: str):
    import itertools

    if func == "api_file_name":
        for sel in itertools.product(range(len(SRC_NAMES)), range(len(OUTS)), range(2)):
            yield [list(sel) + [0] * 9]
    else:
        for sel in itertools.product(range(2), range(len(OUTS)), range(len(MOD_IDS)), range(4), range(2), range(3)):
            yield [list(sel) + [0] * 6]


PLACEHOLDERS = ["ext.lib.alpha", "ext.lib.zeta", "ext.lib.mid.Middle", "ext.lib.Beta", "ext.other.Gamma", "ext.lib._hid.Delta"]


def placeholders(sel: List[int]) -> bool:
    """Placeholder stubs for classes of other libraries (1-4 out of 6, incl. a sub-module whose name sorts between two
    classes of its parent module): every path is opened for writing once, every referenced class is declared in the
    file its import names, under the announced package.

    pre: len(sel) == SEL_LEN and fixed(sel)
    post: _
    """
    try:
        cur = Cur()
        convert = rd(sel, cur, 2) == 1
        chosen = [q for q in PLACEHOLDERS if rd(sel, cur, 2) == 1]
        if not (1 <= len(chosen) <= 4):
            raise OutOfRange
    except OutOfRange:
        return True
    api = mk_api()
    m = mk_module(api, "pkg/m")
    mk_function(api, m, "f", params=[{"name": f"p{i}", "type_": NamedType(q.split(".")[-1], q)} for i, q in enumerate(chosen)],
                results=[("result_1", INT)])
    fs, _, _ = generate(api, convert)
    note("oracle")
    labels = []
    with untraced():
        per_path: dict[str, list] = {}
        for path, mode, _text in fs.writes:
            per_path.setdefault(path, []).append(mode)
        for path, modes in per_path.items():
            if modes.count("w") != 1 or modes[0] != "w":
                labels.append("path-written-more-than-once")
        declared = {}
        for path, text in fs.files.items():
            try:
                f = parse(text)
            except StubSyntaxError as e:
                labels.append(f"stub-syntax:{e.msg.split(';')[0]}")
                continue
            declared.setdefault(f.pymodule, set()).update(d.pyname for d in f.decls)
        for q in chosen:
            mod, name = q.rsplit(".", 1)
            if name not in declared.get(mod, set()):
                labels.append("placeholder-class-missing-from-its-stub")
    return judge(labels)
