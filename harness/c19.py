"""C19 harnesses (Engine C): laws of the API type values, all terms up to a depth/arity bound.

Selector vector -> term (decoder below).  Leaf data come from small concrete pools *selected* by symbolic ints:
CrossHair realises any symbolic value that is hashed, and every law here hashes (Counter / frozenset), so leaf values
cannot stay symbolic in this harness; the symbolic-value part of C19 (BoundaryType equality vs. hashing) is Engine K.
"""
from __future__ import annotations

from typing import List

from safeds_stubgen.api_analyzer._types import (
    AbstractType,
    BoundaryType,
    CallableType,
    DictType,
    EnumType,
    FinalType,
    ListType,
    LiteralType,
    NamedSequenceType,
    NamedType,
    SetType,
    TupleType,
    TypeVarType,
    UnionType,
    UnknownType,
)
from vlib.hsupport import THOROUGH, OutOfRange, fixed, note

NAMES = ["a", "b"]
LITS = [[1], [True], ["a"], [1, True], ["a", 1], [2.5, "a"]]
MINS = [0, "NegativeInfinity"]
MAXS = [1.5, "Infinity"]
N_KINDS = 14

# quick: depth 1 (root: any constructor, full leaf pools; children: the 8 inner leaves), arity <= 2
# thorough: depth 2; below the root at most one child per node is deep, arity <= 2 at the root, <= 1 below
DEPTH = 2 if THOROUGH else 1
SEL_LEN = 24


class Cur:
    def __init__(self) -> None:
        self.pos = 0


def rd(sel: List[int], cur: Cur, n: int) -> int:
    v = sel[cur.pos]
    cur.pos += 1
    for i in range(n):
        if v == i:
            return i
    raise OutOfRange


def inner_leaf(i: int) -> AbstractType:
    if i == 0:
        return UnknownType()
    if i == 1:
        return NamedType("a", "m.a")
    if i == 2:
        return NamedType("b", "b")
    if i == 3:
        return EnumType(frozenset(["a"]))
    if i == 4:
        return BoundaryType("int", 0, "Infinity", True, True)
    if i == 5:
        return LiteralType([1])
    if i == 6:
        return LiteralType([True])
    return TypeVarType("a", None)


INNER = [8]  # size of the inner leaf pool (pair harness: 3 -> Unknown, Named a, Literal[1] via PAIR_LEAVES)
PAIR_LEAVES = [0, 1, 5]


def mk(sel: List[int], cur: Cur, depth: int, max_arity: int, root: bool = False) -> AbstractType:
    if depth == 0:
        if INNER[0] == 8:
            return inner_leaf(rd(sel, cur, 8))
        return inner_leaf(PAIR_LEAVES[rd(sel, cur, 3)])
    k = rd(sel, cur, N_KINDS)
    if k == 0:
        return UnknownType()
    if k == 1:
        n = NAMES[rd(sel, cur, 2)]
        return NamedType(n, "m." + n if rd(sel, cur, 2) else n)
    if k == 3:
        return EnumType(frozenset(NAMES[: rd(sel, cur, 3)]))
    if k == 4:
        if not root:
            return BoundaryType("int", 0, MAXS[rd(sel, cur, 2)], True, rd(sel, cur, 2) == 1)
        return BoundaryType("int", MINS[rd(sel, cur, 2)], MAXS[rd(sel, cur, 2)], rd(sel, cur, 2) == 1, rd(sel, cur, 2) == 1)
    if k == 8:
        return LiteralType(list(LITS[rd(sel, cur, 6 if root else 3)]))
    if k == 13:
        n = NAMES[rd(sel, cur, 2)]
        if rd(sel, cur, 2) == 0:
            return TypeVarType(n, None)
        return TypeVarType(n, mk(sel, cur, depth - 1, 1))
    if k == 9:
        return FinalType(mk(sel, cur, depth - 1, 1))
    if k == 6:
        return DictType(mk(sel, cur, depth - 1, 1), mk(sel, cur, 0, 1))
    arity = rd(sel, cur, max_arity + 1)
    kids = []
    for i in range(arity):
        kids.append(mk(sel, cur, depth - 1 if i == 0 else 0, 1))
    if k == 2:
        n = NAMES[rd(sel, cur, 2)]
        return NamedSequenceType(n, "m." + n, kids)
    if k == 5:
        return ListType(kids)
    if k == 7:
        return SetType(kids)
    if k == 10:
        return TupleType(kids)
    if k == 11:
        return UnionType(kids)
    # 12
    return CallableType(kids, mk(sel, cur, 0, 1))


ORDER_INSENSITIVE = (NamedSequenceType, ListType, SetType, TupleType, UnionType)


def in_region(t: AbstractType) -> str:
    """Known-finding regions of C19 (see known_findings.json); empty string = outside every region."""
    return ""


def single(sel: List[int]) -> bool:
    """
    pre: len(sel) == SEL_LEN and fixed(sel)
    post: _
    """
    try:
        t = mk(sel, Cur(), DEPTH, 2, root=True)
    except OutOfRange:
        return True
    if in_region(t):
        note("region")
        return True
    note("oracle")
    return _laws(t)


def nested(sel: List[int]) -> bool:
    """Every constructor directly inside every constructor (depth 2; the deep child has at most one member, leaves from a
    pool of 3): the per-term laws again - a law can fail only for a particular nesting (e.g. a union inside a union).

    pre: len(sel) == SEL_LEN and fixed(sel)
    post: _
    """
    INNER[0] = 3
    try:
        t = mk(sel, Cur(), 2, 2, root=False)
    except OutOfRange:
        return True
    finally:
        INNER[0] = 8
    note("oracle")
    return _laws(t)


def _laws(t: AbstractType) -> bool:
    d = t.to_dict()
    t2 = AbstractType.from_dict(d)
    if not (t2 == t and t == t2):  # round trip yields an equal value
        return False
    if t2.to_dict() != d:  # serialising again yields the same dictionary
        return False
    if not (t == t) or not (t2 == t2):  # reflexive
        return False
    if hash(t) != hash(t2):  # equal values have equal hashes (and hashing does not raise)
        return False
    if isinstance(t, ORDER_INSENSITIVE) and len(t.types) >= 2:
        rev = list(reversed(t.types))
        if isinstance(t, NamedSequenceType):
            p = NamedSequenceType(t.name, t.qname, rev)
        else:
            p = type(t)(rev)
        if not (p == t and t == p and hash(p) == hash(t)):
            return False
    if isinstance(t, CallableType) and len(t.parameter_types) >= 2:
        p = CallableType(list(reversed(t.parameter_types)), t.return_type)
        if not (p == t and t == p and hash(p) == hash(t)):
            return False
    if isinstance(t, LiteralType) and len(t.literals) >= 2:
        p = LiteralType(list(reversed(t.literals)))
        if not (p == t and t == p and hash(p) == hash(t)):
            return False
    return True




def pair(sel: List[int]) -> bool:
    """
    pre: len(sel) == SEL_LEN and fixed(sel)
    post: _
    """
    INNER[0] = 3
    try:
        cur = Cur()
        a = mk(sel, cur, 1, 1, root=True)
        cur.pos = 12
        b = mk(sel, cur, 1, 1, root=True)
    except OutOfRange:
        return True
    finally:
        INNER[0] = 8
    if in_region(a) or in_region(b):
        note("region")
        return True
    note("oracle")
    ab = a == b
    ba = b == a
    if ab != ba:  # symmetric
        return False
    if ab and hash(a) != hash(b):  # equal values have equal hashes
        return False
    # the same through a serialisation round trip of one side
    b2 = AbstractType.from_dict(b.to_dict())
    if (a == b2) != ab or (b2 == a) != ab:
        return False
    if ab and hash(a) != hash(b2):
        return False
    return True


def cross(sel: List[int]) -> bool:
    """
    pre: len(sel) == 2 and fixed(sel)
    post: _
    """
    try:
        a = mk([sel[0]] + [0] * 11, Cur(), 1, 1, root=True)
        b = mk([sel[1]] + [0] * 11, Cur(), 1, 1, root=True)
    except OutOfRange:
        return True
    note("oracle")
    ab = a == b
    ba = b == a
    if ab != ba:
        return False
    if ab != (sel[0] == sel[1]):  # minimal terms of distinct constructors are never equal
        return False
    return not ab or hash(a) == hash(b)


def CANDIDATES(func: str):
    import itertools

    if func == "cross":
        for a, b in itertools.product(range(14), range(14)):
            yield [[a, b]]
    else:
        for k in range(14):
            yield [[k] + [0] * (SEL_LEN - 1)]
            yield [[k, 1, 1, 1] + [0] * (SEL_LEN - 4)]
