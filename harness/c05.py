"""C05 harnesses (Engine C): type hints are translated faithfully and compositionally.

gen       - API type term -> real _create_type_string -> recogniser -> canonical form, vs the reference mapping
analyser  - shim mypy type term -> real mypy_type_to_abstract_type -> canonical form, vs the reference mapping
positions - the same annotation as parameter / constructor parameter / result / class attribute / __init__ attribute
name_dispatch - Instance of a class whose NAME IS A SYMBOLIC STRING: the name-based dispatch of the translator
"""
from __future__ import annotations

from typing import List

import safeds_stubgen.stubs_generator._stub_string_generator as SG
from harness.c06 import make_visitor
from harness.zoo import Cur, rd
from oracle.recogniser import StubSyntaxError, _P
from oracle.typemap import canon_api, canon_stub, ref
from safeds_stubgen.api_analyzer._api import Module
from safeds_stubgen.api_analyzer._types import (
    CallableType,
    DictType,
    ListType,
    LiteralType,
    NamedSequenceType,
    NamedType,
    SetType,
    TupleType,
    TypeVarType,
    UnionType,
)
from vlib import shim
from vlib.gapi import mk_api
from vlib.hsupport import THOROUGH, OutOfRange, fixed, judge, note, untraced

SEL_LEN = 14
LEAVES = [("int",), ("str",), ("bool",), ("float",), ("None",), ("Any",), ("cls", "Klass", "pkg.m.Klass"), ("typevar", "T"),
          ("literal", ["a"]), ("literal", [1]), ("literal", [True]), ("literal", ["a", 2])]
SMALL = [("int",), ("None",), ("cls", "Klass", "pkg.m.Klass"), ("literal", ["a"])]
N_CONS = 13


def term1(sel, cur, pool):
    """Depth-1 term: a leaf of `pool` or one constructor applied to leaves of `pool`."""
    k = rd(sel, cur, N_CONS + 1)
    sub = lambda: pool[rd(sel, cur, len(pool))]  # noqa: E731
    if k == 0:
        return sub()
    if k == 1:
        return ("list", sub())
    if k == 2:
        return ("seq", sub())
    if k == 3:
        return ("coll", sub())
    if k == 4:
        return ("set", sub())
    if k == 5:
        return ("optional", sub())
    if k == 6:
        return ("dict", sub(), sub())
    if k == 7:
        return ("mapping", sub(), sub())
    if k == 8:
        return ("tuple", [sub() for _ in range(1 + rd(sel, cur, 2))])
    if k == 9:
        n = 2 + (rd(sel, cur, 2) if THOROUGH else 0)
        return ("union", [sub() for _ in range(n)])
    if k == 10:
        return ("callable", [sub() for _ in range(rd(sel, cur, 2))], sub())
    if k == 11:
        return ("generic", "Gen", "pkg.m.Gen", [sub()])
    if k == 12:
        return ("callable", [sub()], ("tuple", [sub(), sub()]))
    return ("callable", [], ("None",))


N_OUTER = 9


def term(sel, cur, depth: int = 2):
    """mode 0: every depth-1 term over the full leaf pool; mode 1: one outer constructor around every depth-1 term over
    the small leaf pool (depth 2)."""
    mode = rd(sel, cur, 2)
    if mode == 0:
        return term1(sel, cur, LEAVES)
    o = rd(sel, cur, N_OUTER)
    inner = term1(sel, cur, SMALL if not THOROUGH else LEAVES[:8])
    INT = ("int",)
    return [("list", inner), ("optional", inner), ("set", inner), ("dict", ("str",), inner), ("tuple", [inner, INT]),
            ("union", [inner, ("float",)]), ("callable", [inner], INT), ("callable", [INT], inner),
            ("generic", "Gen", "pkg.m.Gen", [inner])][o]


def legal(t) -> bool:
    """Terms Python/mypy can produce: no union nested directly in a union, no None as dict key, literal only as leaf..."""
    k = t[0]
    if k == "union":
        ms = t[1]
        if any(m[0] in ("union", "optional") for m in ms):
            return False
        if len({repr(m) for m in ms}) != len(ms):
            return False  # mypy removes duplicate union members itself
    if k == "optional" and t[1][0] in ("None", "optional", "union", "Any"):
        return False
    for x in t[1:]:
        if isinstance(x, tuple) and x and isinstance(x[0], str) and x[0] in CONS and not legal(x):
            return False
        if isinstance(x, list):
            for y in x:
                if isinstance(y, tuple) and y and y[0] in CONS and not legal(y):
                    return False
    return True


CONS = {"int", "str", "bool", "float", "None", "Any", "cls", "typevar", "list", "seq", "coll", "set", "tuple", "dict", "mapping",
        "union", "optional", "literal", "callable", "generic"}


# ------------------------------------------------------------------------------------------------ term -> API type
def api_type(t):
    k = t[0]
    prim = {"int": "builtins.int", "str": "builtins.str", "bool": "builtins.bool", "float": "builtins.float",
            "None": "builtins.None", "Any": "typing.Any"}
    if k in prim:
        return NamedType(k, prim[k])
    if k == "cls":
        return NamedType(t[1], t[2])
    if k == "typevar":
        return TypeVarType(t[1], None)
    if k in ("list", "seq", "coll"):
        return ListType([api_type(t[1])])
    if k == "set":
        return SetType([api_type(t[1])])
    if k == "tuple":
        return TupleType([api_type(x) for x in t[1]])
    if k in ("dict", "mapping"):
        return DictType(api_type(t[1]), api_type(t[2]))
    if k == "union":
        return UnionType([api_type(x) for x in t[1]])
    if k == "optional":
        return UnionType([api_type(t[1]), NamedType("None", "builtins.None")])
    if k == "literal":
        if len(t[1]) == 1:
            return LiteralType(list(t[1]))
        return UnionType([LiteralType([v]) for v in t[1]])  # mypy splits Literal["a", 2] into a union of literals
    if k == "callable":
        return CallableType([api_type(x) for x in t[1]], api_type(t[2]))
    if k == "generic":
        return NamedSequenceType(t[1], t[2], [api_type(x) for x in t[3]])
    raise ValueError(k)


def _features(t) -> str:
    """Input class for labels."""
    s = repr(t)
    if "'literal'" in s and ("'union'" in s or "'optional'" in s):
        return "literal-in-union"
    return t[0]


def gen(sel: List[int]) -> bool:
    """
    pre: len(sel) == SEL_LEN and fixed(sel)
    post: _
    """
    try:
        t = term(sel, Cur())
        if not legal(t):
            raise OutOfRange
    except OutOfRange:
        return True
    at = api_type(t)
    g = SG.StubsStringGenerator(api=mk_api(), convert_identifiers=False)
    g(Module(id_="pkg/m", name="m"))
    g._set_module_id("pkg/m")
    text = g._create_type_string(at.to_dict())
    note("oracle")
    with untraced():
        try:
            p = _P(text)
            tr = p.type_()
            if p.t.kind != "EOF":
                raise p.err("trailing text after type")
        except StubSyntaxError as e:
            return judge([f"type-syntax:{e.msg.split(';')[0]}:{_features(t)}"])
        if canon_stub(tr) != ref(t):
            return judge([f"type-translation-differs:{_features(t)}"])
    return True


# ------------------------------------------------------------------------------------------------ term -> shim mypy type
def mypy_type(t):
    k = t[0]
    if k in ("int", "str", "bool", "float"):
        return shim.instance(f"builtins.{k}")
    if k == "None":
        return shim.none_type()
    if k == "Any":
        return shim.any_type(shim.TypeOfAny.explicit)
    if k == "cls":
        return shim.instance(t[2])
    if k == "typevar":
        return shim.type_var(t[1])
    if k == "list":
        return shim.instance("builtins.list", [mypy_type(t[1])])
    if k == "seq":
        return shim.instance("typing.Sequence", [mypy_type(t[1])])
    if k == "coll":
        return shim.instance("typing.Collection", [mypy_type(t[1])])
    if k == "set":
        return shim.instance("builtins.set", [mypy_type(t[1])])
    if k == "tuple":
        return shim.tuple_type([mypy_type(x) for x in t[1]])
    if k == "dict":
        return shim.instance("builtins.dict", [mypy_type(t[1]), mypy_type(t[2])])
    if k == "mapping":
        return shim.instance("typing.Mapping", [mypy_type(t[1]), mypy_type(t[2])])
    if k == "union":
        items = []
        for x in t[1]:
            m = mypy_type(x)
            items.extend(m.items if isinstance(m, shim.T.UnionType) else [m])
        return shim.union(items)
    if k == "optional":
        m = mypy_type(t[1])
        return shim.union((m.items if isinstance(m, shim.T.UnionType) else [m]) + [shim.none_type()])
    if k == "literal":
        lits = [shim.literal(v) for v in t[1]]
        return lits[0] if len(lits) == 1 else shim.union(lits)
    if k == "callable":
        return shim.callable_type([mypy_type(x) for x in t[1]], mypy_type(t[2]))
    if k == "generic":
        return shim.instance(t[2], [mypy_type(x) for x in t[3]])
    raise ValueError(k)


def analyser(sel: List[int]) -> bool:
    """
    pre: len(sel) == SEL_LEN and fixed(sel)
    post: _
    """
    try:
        t = term(sel, Cur())
        if not legal(t):
            raise OutOfRange
    except OutOfRange:
        return True
    shim.install()
    vis = make_visitor(False)
    got = vis.mypy_type_to_abstract_type(mypy_type(t))
    note("oracle")
    with untraced():
        if canon_api(got.to_dict()) != ref(t):
            return judge([f"analyser-translation-differs:{_features(t)}"])
    return True


def name_dispatch(name: str, generic: bool) -> bool:
    """An Instance whose class NAME is a symbolic string: anything that is not one of the names the statement maps is
    translated to a class reference carrying exactly that name (and its arguments, for a generic class).

    pre: len(name) <= 4
    post: _
    """
    known = ("int", "str", "bool", "float", "tuple", "list", "set", "Sequence", "Collection", "dict", "Mapping")
    if name in known:
        return True  # the documented names: covered by the term harness (a user class of such a name: see C01)
    shim.install()
    vis = make_visitor(False)
    args = [shim.instance("builtins.int"), shim.instance("builtins.str")] if generic else []
    inst = shim.mk(shim.T.Instance, type=shim.mk(shim.N.TypeInfo, name=name, fullname="pkg.m." + name, bases=[]), args=args)
    got = vis.mypy_type_to_abstract_type(inst)
    note("oracle")
    d = got.to_dict()
    if generic:
        ok = d["kind"] == "NamedSequenceType" and d["name"] == name and d["qname"] == "pkg.m." + name and len(d["types"]) == 2
    else:
        ok = d["kind"] == "NamedType" and d["name"] == name and d["qname"] == "pkg.m." + name
    return judge([] if ok else ["class-name-dispatch"])


def CANDIDATES(func: str):
    from harness.zoo import all_vectors

    for vec in all_vectors(lambda s: term(s, Cur()), SEL_LEN):
        yield [vec]
