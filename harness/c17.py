"""C17 harness (Engine C): members of private ancestors surface exactly once in public subclasses."""
from __future__ import annotations

from typing import List

from harness.zoo import Cur, rd
from oracle.recogniser import StubSyntaxError, parse
from vlib.gapi import INT, generate, mk_api, mk_class, mk_function, mk_module, self_param
from vlib.hsupport import THOROUGH, OutOfRange, fixed, judge, note, untraced

SEL_LEN = 20 if THOROUGH else 16
METHODS = ["ma", "mb"]
# quick: 2 ancestor candidates below the public class under test, every variation.
# thorough: the quick space plus 3 ancestor candidates (chains of depth 3, diamonds over three classes) with reduced
# variation per class (deeper classes define nothing or 'ma'; property / other module only for K0 resp. never)


def build(sel: List[int], cur: Cur):
    """Classes K0..K(n-1) then the public class 'Top' (module pkg/m). Class i may derive from lower-numbered classes
    (acyclic by construction). Ancestors are public or private (underscore name); K0 may live in module pkg/n."""
    deep = THOROUGH and rd(sel, cur, 2) == 1
    n_anc = 3 if deep else 2
    api = mk_api()
    n_mod = mk_module(api, "pkg/n")
    m_mod = mk_module(api, "pkg/m")
    classes, info = [], []
    for i in range(n_anc + 1):
        top = i == n_anc
        private = False if top else rd(sel, cur, 2) == 1
        in_n = (not top) and i == 0 and not deep and rd(sel, cur, 2) == 1
        # subset of METHODS defined by this class (Top defines nothing or only 'ma'; so do K1, K2 in the deep space)
        if deep and i == 0:
            msel = [0, 1, 3][rd(sel, cur, 3)]
        else:
            msel = rd(sel, cur, 2 if top or deep else 4)
        # 'ma' defined as a property instead of a method (only varied for K0)
        prop = rd(sel, cur, 2) == 1 if (msel & 1) and i == 0 else False
        # superclass list: ordered, length <= 2, over lower-numbered classes
        cands = [()] + [(a,) for a in range(i)] + [(a, b) for a in range(i) for b in range(i) if a != b]
        sup = cands[rd(sel, cur, len(cands))]
        # abstract variant (only together with a superclass list starting with K0)
        abstract = top and len(sup) > 0 and sup[0] == 0 and rd(sel, cur, 2) == 1
        name = "Top" if top else (f"_K{i}" if private else f"K{i}")
        mod = n_mod if in_n else m_mod
        supers = [classes[a].id.replace("/", ".") for a in sup] + (["abc.ABC"] if abstract else [])
        c = mk_class(api, mod, name, public=not private, supers=supers)
        for bit, mname in enumerate(METHODS):
            if msel & (1 << bit):
                mk_function(api, c, mname, params=[self_param()], results=[("result_1", INT)],
                            prop=(prop and bit == 0), public=not private, doc=f"defined-by-{name}")
        classes.append(c)
        info.append({"private": private, "sup": sup, "methods": [m for b, m in enumerate(METHODS) if msel & (1 << b)],
                     "abstract": abstract, "name": name, "module": mod.id})
    return api, m_mod, classes, info


def reference(info):
    """Expected members of Top (own first, then first definition along the depth-first walk over private ancestors in
    declaration order; public ancestors cut the walk) and expected 'sub' list (public direct superclasses in order)."""
    top = info[-1]
    members = list(top["methods"])
    definer = {m: top["name"] for m in members}
    order = []

    def walk(i):
        for a in info[i]["sup"]:
            if info[a]["private"]:
                order.append(a)
                walk(a)

    walk(len(info) - 1)
    for a in order:
        for mname in info[a]["methods"]:
            if mname not in members:
                members.append(mname)
                definer[mname] = info[a]["name"]
    subs = [info[a]["name"] for a in top["sup"] if not info[a]["private"]]
    return members, subs, definer


def hierarchy(sel: List[int]) -> bool:
    """
    pre: len(sel) == SEL_LEN and fixed(sel)
    post: _
    """
    try:
        api, m_mod, classes, info = build(sel, Cur())
    except OutOfRange:
        return True
    fs, _, _ = generate(api, False)
    note("oracle")
    labels = []
    with untraced():
        text = fs.files.get("/out/pkg/m/m.sdsstub")
        if text is None:
            return judge(["file-missing:pkg/m"])
        try:
            f = parse(text)
        except StubSyntaxError as e:
            return judge([f"stub-syntax:{e.msg.split(';')[0]}"])
        tops = [d for d in f.decls if d.kind == "class" and d.pyname == "Top"]
        if len(tops) != 1:
            return judge(["Top-not-emitted-exactly-once"])
        d = tops[0]
        want_members, want_subs, definer = reference(info)
        got = [mm.pyname for mm in d.members if mm.kind in ("fun", "attr")]
        abstract = info[-1]["abstract"]
        shape = "abstract-class" if abstract else _shape(info)
        for mname in METHODS:
            c = got.count(mname)
            if mname in want_members and c == 0:
                labels.append(f"inherited-member-missing:{shape}")
            elif mname in want_members and c > 1:
                labels.append(f"inherited-member-duplicated:{shape}")
            elif mname not in want_members and c > 0:
                labels.append(f"member-not-expected:{shape}")
        got_subs = [s.name for s in d.supers]
        if any(s.startswith("_") for s in got_subs):
            labels.append("private-ancestor-in-sub-clause")
        if got_subs != want_subs:
            labels.append(f"sub-clause-differs:{shape}")
        # own definition wins, nearer wins: the documentation text identifies whose definition was rendered
        for mm in d.members:
            if mm.kind in ("fun", "attr") and mm.pyname in definer and got.count(mm.pyname) == 1:
                if f"defined-by-{definer[mm.pyname]}" not in (mm.doc or ""):
                    labels.append(f"wrong-definition-wins:{shape}")
        # public superclasses defined in another module are imported
        imported = {n for _, n in f.imports}
        for a in info[-1]["sup"]:
            if not info[a]["private"] and info[a]["module"] != "pkg/m" and not abstract and info[a]["name"] not in imported:
                labels.append("public-superclass-not-imported")
    return judge(labels)


def _shape(info) -> str:
    """Coarse input class used in labels: how the private ancestors of Top are arranged."""
    top = info[-1]
    priv = [a for a in top["sup"] if info[a]["private"]]
    if len(priv) >= 2:
        return "two-private-bases"
    reach = []

    def walk(i):
        for a in info[i]["sup"]:
            if info[a]["private"]:
                reach.append(a)
                walk(a)

    walk(len(info) - 1)
    if len(reach) != len(set(reach)):
        return "diamond"
    return "chain" if reach else "no-private-ancestor"


def CANDIDATES(func: str):
    import itertools

    # [priv0, in_n0, msel0, (prop0), sup0 | priv1, msel1, (prop1), sup1 | mselT, (propT), supT, abstract]
    for p0, n0, m0, p1, m1, s1, mt, st, ab in itertools.product(range(2), range(2), range(4), range(2), range(4),
                                                                range(2), range(4), range(5), range(2)):
        sel = [p0, n0, m0] + ([0] if m0 & 1 else []) + [0] + [p1, m1] + [s1] + [mt] + [st] + ([ab] if st in (1, 3) else [])
        yield [sel + [0] * (SEL_LEN - len(sel))]
