"""C11 harness (Engine C): every referenced class is declared or imported, and every import resolves."""
from __future__ import annotations

from typing import List

from harness.zoo import Cur, rd
from oracle.recogniser import StubSyntaxError, parse
from safeds_stubgen.api_analyzer._types import DictType, ListType, NamedSequenceType, NamedType
from vlib.gapi import INT, STR, generate, mk_api, mk_attr, mk_class, mk_function, mk_init_module, mk_module, self_param
from vlib.hsupport import THOROUGH, OutOfRange, fixed, judge, note, untraced

SEL_LEN = 12
BUILTIN = {"Int", "String", "Boolean", "Float", "Any", "List", "Set", "Map", "Tuple", "Nothing"}
# same module, sibling, prefix-collision, sub-package, foreign, nowhere (a bare name that is no class at all: the "type" the
# analyser infers for `return x` of a local variable, or a docstring-only type name)
# ... builtins: a built-in class that has no Safe-DS counterpart (bytes, object, complex)
TARGET_MODULES = ["pkg/m", "pkg/n", "pkg/m2", "pkg/deep/k", "ext/lib", None, "builtins"]
BUILTIN_NAMES = ["bytes", "object", "complex"]
TARGET_NAMES = ["X", "Foo", "my_cls"]
DECOYS = [None, ("pkg/u", "XFoo"), ("pkg/u", "X"), ("pkg/deep/u", "Foo")]
QUALS = ["full", "partial", "bare"]


def build(sel: List[int], cur: Cur):
    api = mk_api()
    tmod = TARGET_MODULES[rd(sel, cur, len(TARGET_MODULES))]
    tname = TARGET_NAMES[rd(sel, cur, len(TARGET_NAMES))]
    decoy = DECOYS[rd(sel, cur, len(DECOYS))]
    qual = QUALS[rd(sel, cur, len(QUALS))]
    # target class re-exported: no / by pkg/__init__ by name / by pkg/__init__ with alias / by name by a package that is no
    # ancestor of the defining module and whose id has fewer segments but more characters (pkg/long_public_api)
    reexport = rd(sel, cur, 4)
    decoy_first = decoy is not None and rd(sel, cur, 2) == 1  # the unrelated module is analysed before the target's
    foreign = tmod in ("ext/lib", "builtins")
    if foreign and (reexport or qual != "full"):
        raise OutOfRange
    if tmod == "builtins":
        if decoy is not None:
            raise OutOfRange
        tname = BUILTIN_NAMES[TARGET_NAMES.index(tname)]
    nowhere = tmod is None
    if nowhere:
        if reexport or qual != "bare":
            raise OutOfRange
        tmod = "nowhere"
    if tmod == "pkg/m" and reexport:
        raise OutOfRange
    tq = tmod.replace("/", ".") + "." + tname
    if reexport == 3:
        mk_init_module(api, "pkg/long_public_api", imports=[(tq, None)])
    elif reexport:
        mk_init_module(api, "pkg", imports=[(tq, "Alias" if reexport == 2 else None)])
    m = mk_module(api, "pkg/m")

    def add_decoy():
        dm = mk_module(api, decoy[0]) if decoy[0] not in api.modules else api.modules[decoy[0]]
        mk_class(api, dm, decoy[1])

    if decoy is not None and decoy_first:
        add_decoy()
    if not foreign and not nowhere:
        tm = m if tmod == "pkg/m" else mk_module(api, tmod)
        mk_class(api, tm, tname)
    if decoy is not None and not decoy_first:
        add_decoy()
    ref_q = {"full": tq, "partial": ".".join(tq.split(".")[-2:]), "bare": tname}[qual]
    ref = NamedType(tname, ref_q)
    # the class is used in every position (parameter, generic argument, result, attribute, superclass) / only with type
    # arguments of its own: X[int] (quick tier: the second form only for plain configurations)
    only_subscripted = rd(sel, cur, 2) == 1
    if only_subscripted and (decoy is not None or reexport or qual != "full") and not THOROUGH:
        raise OutOfRange
    if only_subscripted:
        mk_function(api, m, "f", params=[{"name": "p", "type_": NamedSequenceType(tname, ref_q, [INT])}], results=[("result_1", INT)])
        c = mk_class(api, m, "User")
        mk_attr(api, c, "a", INT)
    else:
        mk_function(api, m, "f", params=[{"name": "p", "type_": ListType([ref])}, {"name": "q", "type_": DictType(STR, ref)}],
                    results=[("result_1", ref)])
        c = mk_class(api, m, "User", supers=[tq] if qual == "full" else [])
        mk_attr(api, c, "a", ref)
    mk_function(api, c, "g", params=[self_param()], results=[("result_1", INT)])
    cfg = {"tmod": tmod, "tname": tname, "decoy": decoy, "qual": qual, "reexport": reexport, "decoy_first": decoy_first}
    return api, cfg


def _cause(cfg, convert: bool) -> str:
    """Input class used in labels (first matching feature, most specific first)."""
    if cfg["reexport"] == 2:
        return "re-exported-with-alias"
    if (cfg["reexport"] == 3 and cfg["qual"] == "bare" and cfg["decoy_first"] and cfg["decoy"][1] == cfg["tname"]
            and len(cfg["decoy"][0].split("/")) > 2):
        # the bare reference is resolved to the namesake analysed first; the re-export of the *other* class is then taken
        # for a re-export of the namesake (re-exports are looked up by class name only)
        return "bare-reference-resolved-to-deeper-namesake-of-a-re-exported-class"
    if convert and cfg["tname"] == "my_cls":
        return "name-changes-under-conversion"
    if cfg["tmod"] == "pkg/m2":
        return "module-id-is-prefix-of-other-module-id"
    if cfg["decoy"] is not None and cfg["decoy"][1].endswith(cfg["tname"]) and cfg["decoy"][1] != cfg["tname"]:
        return "class-name-is-suffix-of-unrelated-class-name"
    if cfg["decoy"] is not None and cfg["decoy"][1] == cfg["tname"]:
        return "same-class-name-in-unrelated-module"
    if cfg["tmod"] == "nowhere":
        return "bare-name-of-no-class"
    if cfg["tmod"] == "builtins":
        return "builtin-class-without-safe-ds-counterpart"
    if cfg["qual"] != "full":
        return f"{cfg['qual']}-qualified-reference"  # only docstring-derived types are not fully qualified
    return "plain"


def closure(sel: List[int]) -> bool:
    """
    pre: len(sel) == SEL_LEN and fixed(sel)
    post: _
    """
    try:
        cur = Cur()
        convert = rd(sel, cur, 2) == 1
        api, cfg = build(sel, cur)
    except OutOfRange:
        return True
    fs, _, _ = generate(api, convert)
    note("oracle")
    labels = []
    with untraced():
        files = {}
        for path, text in fs.files.items():
            try:
                files[path] = parse(text)
            except StubSyntaxError as e:
                labels.append(f"stub-syntax:{e.msg.split(';')[0]}")
        declared = {}  # package -> set of top-level declaration names (as written)
        for f in files.values():
            declared.setdefault(f.package, set()).update(d.name for d in f.decls)
        cause = _cause(cfg, convert)
        for path, f in files.items():
            local = {d.name for _, d in f.all_decls() if d.kind in ("class", "enum")}
            imported = {n for _, n in f.imports}
            tparams = {tp.name for _, d in f.all_decls() for tp in d.tparams}
            for nm in set(f.type_names()):
                if nm in BUILTIN or nm in local or nm in imported or nm in tparams:
                    continue
                labels.append(f"dangling-reference:{cause}")
            for src, nm in f.imports:
                if nm not in declared.get(src, set()):
                    labels.append(f"unresolved-import:{cause}")
    return judge(labels)


def CANDIDATES(func: str):
    import itertools

    for sel in itertools.product(range(2), range(len(TARGET_MODULES)), range(len(TARGET_NAMES)), range(len(DECOYS)),
                                 range(len(QUALS)), range(4), range(2), range(2)):
        yield [list(sel) + [0] * 4]
