"""Site coverage with tagging stubs (DESIGN.md 3.4): the two naming kernels are replaced, in the namespaces of the
generator modules, by stubs that make their application visible in the output:

    _convert_name_to_convention(x, conv, is_class) = ('C9' if is_class else 'F9') + x + ('9C' if is_class else '9F')
    _replace_if_safeds_keyword(x)                  = 'E9' + x + '9E'

The tagged output is still valid stub syntax, so the independent recogniser locates every identifier position; each
must read E9(C9|F9)name(9C|9F)9E - converted once with the right kind, then escaped once.  Labels:
    esc:<site>        identifier emitted without the keyword escape           (C02)
    conv:<site>       identifier emitted without the naming conversion         (C09)
    kind:<site>       converted with the wrong kind (class vs. other)          (C09)
    order:<site>      escaped before converted                                 (C02/C09)
"""
from __future__ import annotations

import safeds_stubgen.stubs_generator._generate_stubs as GS
import safeds_stubgen.stubs_generator._stub_string_generator as SG
from oracle.recogniser import StubSyntaxError, parse
from vlib.gapi import generate

BUILTIN_TYPES = ("Int", "String", "Boolean", "Float", "Any", "List", "Set", "Map", "Tuple", "Nothing")


def _tag_convert(name, naming_convention, is_class_name=False):  # noqa: ARG001
    return ("C9" if is_class_name else "F9") + name + ("9C" if is_class_name else "9F")


def _tag_escape(name):
    return "E9" + name + "9E"


class Tagged:
    def __enter__(self):
        self.saved = (SG._convert_name_to_convention, SG._replace_if_safeds_keyword,
                      GS._convert_name_to_convention, GS._replace_if_safeds_keyword)
        SG._convert_name_to_convention = GS._convert_name_to_convention = _tag_convert
        SG._replace_if_safeds_keyword = GS._replace_if_safeds_keyword = _tag_escape
        return self

    def __exit__(self, *a):
        (SG._convert_name_to_convention, SG._replace_if_safeds_keyword,
         GS._convert_name_to_convention, GS._replace_if_safeds_keyword) = self.saved


def analyse(tok: str):
    """-> (escaped, conversion kind 'C'/'F'/None, well-ordered)"""
    escaped = tok.startswith("E9") and tok.endswith("9E")
    inner = tok[2:-2] if escaped else tok
    kind = None
    if inner.startswith("C9") and inner.endswith("9C"):
        kind = "C"
    elif inner.startswith("F9") and inner.endswith("9F"):
        kind = "F"
    core = inner[2:-2] if kind else inner
    ordered = "E9" not in core and "9E" not in core and "F9" not in core and "C9" not in core
    return escaped, kind, ordered


def check(tok: str, site: str, want_kind: str, labels: list) -> None:
    escaped, kind, ordered = analyse(tok)
    if not escaped:
        labels.append(f"esc:{site}")
    if kind is None:
        labels.append(f"conv:{site}")
    elif kind != want_kind:
        labels.append(f"kind:{site}")
    if not ordered:
        labels.append(f"order:{site}")


def check_path(path: str, site: str, labels: list) -> None:
    segs = path.split(".")
    if len(segs) == 1:
        check(path, site + "-segment", "F", labels)
        return
    per_segment = [analyse(s) for s in segs]
    if not all(e for e, _, _ in per_segment):
        labels.append(f"esc:{site}-segment")
    if not all(k == "F" for _, k, _ in per_segment):
        whole = analyse(path)
        if whole[1] is not None or analyse(path[2:-2] if whole[0] else path)[1] is not None:
            labels.append(f"conv:{site}-whole-path")  # kernel applied to the dotted path as one string
        else:
            labels.append(f"conv:{site}-segment")


def site_labels(api) -> list[str]:
    with Tagged():
        fs, _, _ = generate(api, True)
    labels: list[str] = []
    for _path, text in fs.files.items():
        try:
            f = parse(text)
        except StubSyntaxError as e:
            labels.append(f"tagged-syntax:{e.msg.split(';')[0]}")
            continue
        check_path(f.package, "package", labels)
        for src, name in f.imports:
            check_path(src, "import-source", labels)
            esc, kind, _ = analyse(name)
            if not esc:
                labels.append("esc:import-name")
            if kind is None:
                labels.append("conv:import-name")
            elif kind == "F" and name.replace("E9", "").replace("F9", "")[:1].isupper():
                labels.append("kind:import-name-of-class")
        for _owner, d in f.all_decls():
            if d.kind == "enum":
                check(d.name, "enum-name", "C", labels)
            elif d.kind == "variant":
                check(d.name, "enum-member", "F", labels)
            else:
                check(d.name, f"{d.kind}-name", "C" if d.kind == "class" else "F", labels)
            for tp in d.tparams:
                check(tp.name, f"{d.kind}-type-parameter", "F", labels)
            for p in d.params or []:
                check(p.name, "parameter", "F", labels)
            for r in d.results:
                check(r.name, "result", "F", labels)
            for s in d.supers:
                for nm in s.names():
                    check(nm, "superclass", "C", labels)
        for nm in f.type_names():
            if nm in BUILTIN_TYPES:
                continue
            esc, kind, _ = analyse(nm)
            if kind == "F" and esc:
                continue  # a type variable
            check(nm, "type-reference", "C", labels)
    return sorted(set(labels))
