"""G_ast: module trees for the walker/visitor (DESIGN.md 3.10), built as shim ASTs AND rendered as Python source.

decode_module(sel, cur) -> Built(tree, source, expect)
  tree    shim MypyFile for module pkg.m
  source  Python text of the same module (conformance runs parse it with the real mypy)
  expect  the declarations the source contains: list of dicts(kind, id, owner, name, flags...)

Every construct is one the builders in vlib/shim.py fill the way mypy does; vlib/shim_conformance.py checks that on
every run.  Grammar (top level: 0-2 items, class bodies: 0-2 items):
  function (public / private name, 0-1 annotated parameter, annotated or not)
  class with body items: annotated class attribute, un-annotated class attribute, tuple-target class attribute,
        instance method, static method, class method, read-only property, read/write property, overloaded method with
        implementation, constructor assigning `self.v`, `self.w: str`, and re-assigning an existing attribute,
        nested class, second assignment to an existing attribute
  enum class with two members
  module-level assignment (ignored by the analyser), module docstring
"""
from __future__ import annotations

from dataclasses import dataclass, field

from harness.zoo import rd
from vlib import shim
from vlib.hsupport import THOROUGH, OutOfRange

INT = lambda: shim.instance("builtins.int")  # noqa: E731
STR = lambda: shim.instance("builtins.str")  # noqa: E731
ELL = lambda: shim.expr_stmt(shim.mk(shim.N.EllipsisExpr))  # noqa: E731
N_TOP = 7
N_MEMBER = 15
MAX_TOP = 2
MAX_MEMBERS = 2


@dataclass
class Built:
    tree: object = None
    source: str = ""
    expect: list = field(default_factory=list)
    features: set = field(default_factory=set)


def _fun(name, fullname, self_arg=None, params=(), ret=True, **flags):
    args = []
    if self_arg == "self":
        args.append(shim.argument("self", shim.ArgKind.ARG_POS, is_self=True))
    elif self_arg == "cls":
        args.append(shim.argument("cls", shim.ArgKind.ARG_POS, is_cls=True))
    for pname in params:
        args.append(shim.argument(pname, shim.ArgKind.ARG_POS, annotation=INT()))
    return shim.func_def(name, fullname, args, ret=INT() if ret else shim.none_type(), body=[ELL()], **flags)


def _member(sel, cur, k: int, cq: str, cid: str, idx: int, b: Built, defined: list):
    """-> (shim statements, source lines) for class-body item kind k of class cq (qualified name) / cid (API id)."""
    add = b.expect.append
    n = f"{idx}"
    if k == 0:  # annotated class attribute
        nm = "ca" + n
        v = shim.var(nm, INT(), fullname=f"{cq}.{nm}")
        add({"kind": "attribute", "id": f"{cid}/{nm}", "owner": cid, "name": nm, "static": True})
        defined.append(nm)
        return [shim.assignment([shim.name_expr(nm, nm, node=v)], unanalyzed_type=shim.unbound("int"))], [f"{nm}: int = 1"]
    if k == 1:  # un-annotated class attribute (inferred)
        nm = "cb" + n
        v = shim.var(nm, INT(), fullname=f"{cq}.{nm}", is_inferred=True)
        add({"kind": "attribute", "id": f"{cid}/{nm}", "owner": cid, "name": nm, "static": True})
        defined.append(nm)
        return [shim.assignment([shim.name_expr(nm, nm, node=v)])], [f"{nm} = 2"]
    if k == 2:  # tuple target
        a, c = "ta" + n, "tb" + n
        va = shim.var(a, INT(), fullname=f"{cq}.{a}", is_inferred=True)
        vc = shim.var(c, STR(), fullname=f"{cq}.{c}", is_inferred=True)
        for nm in (a, c):
            add({"kind": "attribute", "id": f"{cid}/{nm}", "owner": cid, "name": nm, "static": True})
            defined.append(nm)
        return [shim.assignment([shim.tuple_expr([shim.name_expr(a, a, node=va), shim.name_expr(c, c, node=vc)])])], [f'{a}, {c} = 1, "s"']
    if k == 3:  # instance method
        nm = "m" + n
        add({"kind": "method", "id": f"{cid}/{nm}", "owner": cid, "name": nm, "static": False, "class_method": False, "property": False})
        return [_fun(nm, f"{cq}.{nm}", "self", ["x"])], [f"def {nm}(self, x: int) -> int: ..."]
    if k == 4:  # static method
        nm = "sm" + n
        add({"kind": "method", "id": f"{cid}/{nm}", "owner": cid, "name": nm, "static": True, "class_method": False, "property": False})
        return [shim.decorator(_fun(nm, f"{cq}.{nm}", None, ["x"], is_static=True))], ["@staticmethod", f"def {nm}(x: int) -> int: ..."]
    if k == 5:  # class method
        nm = "cm" + n
        add({"kind": "method", "id": f"{cid}/{nm}", "owner": cid, "name": nm, "static": False, "class_method": True, "property": False})
        return [shim.decorator(_fun(nm, f"{cq}.{nm}", "cls", [], is_class=True))], ["@classmethod", f"def {nm}(cls) -> int: ..."]
    if k == 6:  # read-only property
        nm = "ro" + n
        add({"kind": "method", "id": f"{cid}/{nm}", "owner": cid, "name": nm, "static": False, "class_method": False, "property": True})
        return [shim.decorator(_fun(nm, f"{cq}.{nm}", "self", [], is_property=True))], ["@property", f"def {nm}(self) -> int: ..."]
    if k == 7:  # read/write property: mypy builds an OverloadedFuncDef of two decorators without implementation
        nm = "rw" + n
        b.features.add("rw-property")
        add({"kind": "method", "id": f"{cid}/{nm}", "owner": cid, "name": nm, "static": False, "class_method": False, "property": True,
             "construct": "read-write-property"})
        getter = shim.decorator(_fun(nm, f"{cq}.{nm}", "self", [], is_property=True))
        setter = shim.decorator(_fun(nm, f"{cq}.{nm}", "self", ["v"], ret=False))
        return [shim.overloaded([getter, setter], impl=None)], ["@property", f"def {nm}(self) -> int: ...", f"@{nm}.setter",
                                                                f"def {nm}(self, v: int) -> None: ..."]
    if k == 8:  # overloaded method with implementation
        nm = "ov" + n
        add({"kind": "method", "id": f"{cid}/{nm}", "owner": cid, "name": nm, "static": False, "class_method": False, "property": False})
        o1 = shim.decorator(_fun(nm, f"{cq}.{nm}", "self", ["x"]))
        o2 = shim.decorator(_fun(nm, f"{cq}.{nm}", "self", ["x"]))
        impl = shim.func_def(nm, f"{cq}.{nm}", [shim.argument("self", shim.ArgKind.ARG_POS, is_self=True),
                                                   shim.argument("x", shim.ArgKind.ARG_POS)], ret=INT(), body=[ELL()])
        o2.func.arguments[1].__dict__["type_annotation"] = STR()
        o2.func.arguments[1].variable.__dict__["type"] = STR()
        return [shim.overloaded([o1, o2], impl=impl)], ["@overload", f"def {nm}(self, x: int) -> int: ...", "@overload",
                                                        f"def {nm}(self, x: str) -> int: ...", f"def {nm}(self, x) -> int: ..."]
    if k == 9:  # constructor with instance attributes
        again = defined[0] if defined else None
        stmts = []
        lines = ["def __init__(self, v: int) -> None:"]
        for nm, ty, ann in (("iv" + n, INT(), ""), ("iw" + n, STR(), ": str")):
            var = shim.var(nm, ty, fullname=f"{cq}.{nm}", is_inferred=not ann)
            stmts.append(shim.assignment([shim.member_expr(nm, shim.self_expr(), node=var)],
                                         unanalyzed_type=shim.unbound("str") if ann else None))
            lines.append(f"    self.{nm}{ann} = " + ("v" if not ann else '""'))
            add({"kind": "attribute", "id": f"{cid}/{nm}", "owner": cid, "name": nm, "static": False})
        # tuple target: self.ix, self.iy = v, v  (mypy: one AssignmentStmt whose lvalue is a TupleExpr of MemberExprs)
        tx, ty_ = "ix" + n, "iy" + n
        vx = shim.var(tx, INT(), fullname=f"{cq}.{tx}", is_inferred=True)
        vy = shim.var(ty_, INT(), fullname=f"{cq}.{ty_}", is_inferred=True)
        stmts.append(shim.assignment([shim.tuple_expr([shim.member_expr(tx, shim.self_expr(), node=vx),
                                                       shim.member_expr(ty_, shim.self_expr(), node=vy)])]))
        lines.append(f"    self.{tx}, self.{ty_} = v, v")
        for nm in (tx, ty_):
            add({"kind": "attribute", "id": f"{cid}/{nm}", "owner": cid, "name": nm, "static": False})
        # targets that define no attribute of this class, and nested / starred targets that do
        da = "da" + n
        vda = shim.var(da, INT(), fullname=f"{cq}.{da}", is_inferred=True)
        stmts.append(shim.assignment([shim.member_expr(da, shim.self_expr(), node=vda)]))
        stmts.append(shim.assignment([shim.index_expr(shim.member_expr(da, shim.self_expr(), node=vda), shim.str_expr("k"))]))
        lines += [f"    self.{da} = v", f"    self.{da}[\"k\"] = v"]
        add({"kind": "attribute", "id": f"{cid}/{da}", "owner": cid, "name": da, "static": False})
        na, nb, nc = "na" + n, "nb" + n, "nc" + n
        vs = {x: shim.var(x, INT() if x != nc else shim.instance("builtins.list", [INT()]), fullname=f"{cq}.{x}", is_inferred=True)
              for x in (na, nb, nc)}  # the starred target collects a list
        stmts.append(shim.assignment([shim.tuple_expr([
            shim.member_expr(na, shim.self_expr(), node=vs[na]),
            shim.tuple_expr([shim.member_expr(nb, shim.self_expr(), node=vs[nb]),
                             shim.star_expr(shim.member_expr(nc, shim.self_expr(), node=vs[nc]))])])]))
        lines.append(f"    self.{na}, (self.{nb}, *self.{nc}) = v, (v, v)")
        for x in (na, nb, nc):
            add({"kind": "attribute", "id": f"{cid}/{x}", "owner": cid, "name": x, "static": False})
        vlx, vly = (shim.var(x, INT(), fullname=x, is_inferred=True) for x in ("lx", "ly"))
        stmts.append(shim.assignment([shim.tuple_expr([shim.name_expr("lx", "lx", node=vlx), shim.name_expr("ly", "ly", node=vly)])]))
        lines.append("    lx, ly = v, v")
        vother = shim.var("other", None, fullname="other", is_inferred=True)
        stmts.append(shim.assignment([shim.name_expr("other", "other", node=vother)]))
        stmts.append(shim.assignment([shim.member_expr("oq" + n, shim.name_expr("other", "other", node=vother), node=None)]))
        stmts.append(shim.assignment([shim.member_expr("sub" + n, shim.member_expr(da, shim.self_expr(), node=vda), node=None)]))
        lines += ["    other = self", f"    other.oq{n} = v", f"    self.{da}.sub{n} = v"]
        b.features.add("constructor-targets")
        if again:  # re-assignment of an attribute the class body already defines: must not register a second one
            var = shim.var(again, INT(), fullname=f"{cq}.{again}")
            stmts.append(shim.assignment([shim.member_expr(again, shim.self_expr(), node=var)]))
            lines.append(f"    self.{again} = v")
        stmts.append(shim.assignment([shim.name_expr("local", "local", node=shim.var("local", INT(), fullname="local", is_inferred=True))]))
        lines.append("    local = 3")
        init = shim.func_def("__init__", f"{cq}.__init__", [shim.argument("self", shim.ArgKind.ARG_POS, is_self=True),
                                                            shim.argument("v", shim.ArgKind.ARG_POS, annotation=INT())],
                             ret=shim.none_type(), body=stmts)
        add({"kind": "constructor", "id": f"{cid}/__init__", "owner": cid, "name": "__init__"})
        return [init], lines
    if k == 10:  # nested class with one method
        nm = "N" + n
        add({"kind": "class", "id": f"{cid}/{nm}", "owner": cid, "name": nm})
        add({"kind": "method", "id": f"{cid}/{nm}/nm", "owner": f"{cid}/{nm}", "name": "nm", "static": False, "class_method": False, "property": False})
        inner = shim.class_def(nm, f"{cq}.{nm}", [_fun("nm", f"{cq}.{nm}.nm", "self", [])])
        return [inner], [f"class {nm}:", "    def nm(self) -> int: ..."]
    if k == 11:  # a second assignment to an attribute defined earlier in the class body (first definition wins)
        if not defined:
            raise OutOfRange
        nm = defined[0]
        v = shim.var(nm, INT(), fullname=f"{cq}.{nm}")
        return [shim.assignment([shim.name_expr(nm, nm, node=v)])], [f"{nm} = 5"]
    if k == 13:  # an enum nested in the class
        nm = "NE" + n
        b.features.add("nested-enum")
        add({"kind": "enum", "id": f"{cid}/{nm}", "owner": cid, "name": nm, "construct": "enum-nested-in-class"})
        add({"kind": "enum_instance", "id": f"{cid}/{nm}/A", "owner": f"{cid}/{nm}", "name": "A", "construct": "member-of-enum-nested-in-class"})
        v = shim.var("A", INT(), fullname=f"{cq}.{nm}.A", is_inferred=True)
        inner = shim.class_def(nm, f"{cq}.{nm}", [shim.assignment([shim.name_expr("A", "A", node=v)])], bases=[shim.base_expr("enum.Enum")])
        return [inner], [f"class {nm}(Enum):", "    A = 1"]
    if k == 14:  # overloaded static method whose implementation is decorated too (impl is a Decorator, not a FuncDef)
        nm = "os" + n
        b.features.add("overloaded-static")
        add({"kind": "method", "id": f"{cid}/{nm}", "owner": cid, "name": nm, "static": True, "class_method": False, "property": False,
             "construct": "overloaded-method-with-decorated-implementation"})
        o1 = shim.decorator(_fun(nm, f"{cq}.{nm}", None, ["x"], is_static=True))
        o2 = shim.decorator(_fun(nm, f"{cq}.{nm}", None, ["x"], is_static=True))
        o2.func.arguments[0].__dict__["type_annotation"] = STR()
        o2.func.arguments[0].variable.__dict__["type"] = STR()
        impl = shim.decorator(shim.func_def(nm, f"{cq}.{nm}", [shim.argument("x", shim.ArgKind.ARG_POS)], ret=INT(), body=[ELL()],
                                            is_static=True))
        return [shim.overloaded([o1, o2], impl=impl)], ["@overload", "@staticmethod", f"def {nm}(x: int) -> int: ...", "@overload",
                                                        "@staticmethod", f"def {nm}(x: str) -> int: ...", "@staticmethod",
                                                        f"def {nm}(x) -> int: ..."]
    # 12: private method
    nm = "_p" + n
    add({"kind": "method", "id": f"{cid}/{nm}", "owner": cid, "name": nm, "static": False, "class_method": False, "property": False})
    return [_fun(nm, f"{cq}.{nm}", "self", [])], [f"def {nm}(self) -> int: ..."]


def decode_module(sel, cur, mod: str = "m", swap: bool = False) -> Built:
    """swap=True: the same top-level definitions in reversed order (names are tied to the definition, not the place)."""
    b = Built()
    MQ, MID = f"pkg.{mod}", f"pkg/{mod}"
    defs, lines = [], ["from enum import Enum", "from typing import overload", ""]
    doc = rd(sel, cur, 2) == 1
    if doc:
        defs.append(shim.expr_stmt(shim.str_expr("Module doc.")))
        lines = ['"""Module doc."""'] + lines
    imports = [shim.import_from("enum", [("Enum", None)]), shim.import_from("typing", [("overload", None)])]
    ntop = rd(sel, cur, MAX_TOP + 1)
    items = []
    head_defs, head_lines = defs, lines
    for i in range(ntop):
        defs, lines = [], []
        items.append((defs, lines))
        k = rd(sel, cur, N_TOP)
        if k == 0:
            nm = f"f{i}"
            defs.append(_fun(nm, f"{MQ}.{nm}", None, ["a"]))
            lines += [f"def {nm}(a: int) -> int: ...", ""]
            b.expect.append({"kind": "function", "id": f"{MID}/{nm}", "owner": MID, "name": nm})
        elif k == 1:
            nm = f"_g{i}"
            defs.append(_fun(nm, f"{MQ}.{nm}", None, []))
            lines += [f"def {nm}() -> int: ...", ""]
            b.expect.append({"kind": "function", "id": f"{MID}/{nm}", "owner": MID, "name": nm})
        elif k == 2:
            nm = f"C{i}"
            cq, cid = f"{MQ}.{nm}", f"{MID}/{nm}"
            nmem = rd(sel, cur, (MAX_MEMBERS if ntop == 1 else 1) + 1)
            # superclass list (quick: only for classes with an empty body: none / (ValueError, Base0) / (Base0, ValueError); thorough: all five lists for every class of a one-definition module)
            sup = [(), ("ValueError", "Base0"), ("Base0", "ValueError"), ("dict[str, int]",), ("ValueError",), ("Base0",)][
                rd(sel, cur, 6 if THOROUGH and ntop == 1 else (4 if nmem == 0 else 1))]
            bases = []
            for sname in sup:
                if sname == "dict[str, int]":  # a superclass written with type arguments: an IndexExpr, not a name
                    b.features.add("subscripted-base")
                    bases.append(shim.index_expr(shim.base_expr("builtins.dict", info_bases=[shim.instance("builtins.object")]),
                                                 shim.tuple_expr([shim.name_expr("str", "builtins.str"), shim.name_expr("int", "builtins.int")])))
                elif sname == "ValueError":
                    exc = shim.instance("builtins.Exception", bases=[shim.instance("builtins.BaseException", bases=[shim.instance("builtins.object")])])
                    bases.append(shim.base_expr("builtins.ValueError", info_bases=[exc]))
                else:
                    b.features.add("base-class")
                    bases.append(shim.base_expr(f"{MQ}.Base0", info_bases=[shim.instance("builtins.object")]))
            sup_q = [("builtins.ValueError" if x == "ValueError" else "builtins.dict" if x == "dict[str, int]" else f"{MQ}.Base0") for x in sup]
            b.expect.append({"kind": "class", "id": cid, "owner": MID, "name": nm, "superclasses": sup_q,
                             "exception": "ValueError" in sup, **({"construct": "superclass-with-type-arguments"} if "dict[str, int]" in sup else {})})
            body, blines, defined = [], [], []
            for j in range(nmem):
                mk = rd(sel, cur, N_MEMBER)
                st, ln = _member(sel, cur, mk, cq, cid, j, b, defined)
                body += st
                blines += ln
            if not body:
                body, blines = [ELL()], ["..."]
            defs.append(shim.class_def(nm, cq, body, bases=bases))
            lines += [f"class {nm}" + (f"({', '.join(sup)})" if sup else "") + ":"] + ["    " + x for x in blines] + [""]
        elif k == 3:
            nm = f"E{i}"
            eid = f"{MID}/{nm}"
            b.expect.append({"kind": "enum", "id": eid, "owner": MID, "name": nm})
            body = []
            for mem in ("A", "B"):
                v = shim.var(mem, INT(), fullname=f"{MQ}.{nm}.{mem}", is_inferred=True)
                body.append(shim.assignment([shim.name_expr(mem, mem, node=v)]))
                b.expect.append({"kind": "enum_instance", "id": f"{eid}/{mem}", "owner": eid, "name": mem})
            elines = ["    A = 1", "    B = 2"]
            if rd(sel, cur, 2) == 1:  # an enum with a method (the API model has no place for it: it must simply not disturb the analysis)
                body.append(_fun("describe", f"{MQ}.{nm}.describe", "self", []))
                elines += ["", "    def describe(self) -> int: ..."]
                b.features.add("enum-method")
            defs.append(shim.class_def(nm, f"{MQ}.{nm}", body, bases=[shim.base_expr("enum.Enum")]))
            lines += [f"class {nm}(Enum):", *elines, ""]
        elif k == 4:
            nm = f"V{i}"
            v = shim.var(nm, INT(), fullname=f"{MQ}.{nm}", is_inferred=True)
            defs.append(shim.assignment([shim.name_expr(nm, f"{MQ}.{nm}", node=v)]))
            lines += [f"{nm} = 1", ""]
        elif k == 6:  # a function defined inside a module-level 'if' (version / feature switches; TYPE_CHECKING blocks)
            nm = f"c{i}"
            b.features.add("conditional-definition")
            defs.append(shim.if_stmt([[_fun(nm, f"{MQ}.{nm}", None, [])]]))
            lines += ["if c:", f"    def {nm}() -> int: ...", ""]
            b.expect.append({"kind": "function", "id": f"{MID}/{nm}", "owner": MID, "name": nm, "construct": "function-defined-inside-module-level-if"})
        else:  # a decorated module-level function (walker unwraps Decorator)
            nm = f"d{i}"
            defs.append(shim.decorator(_fun(nm, f"{MQ}.{nm}", None, [])))
            lines += ["@deco", f"def {nm}() -> int: ...", ""]
            b.features.add("decorated-function")
            b.expect.append({"kind": "function", "id": f"{MID}/{nm}", "owner": MID, "name": nm})
    defs, lines = head_defs, head_lines
    for d_, l_ in (reversed(items) if swap else items):
        defs += d_
        lines += l_
    if "base-class" in b.features:
        pre = 3 + (1 if doc else 0)
        lines = lines[:pre] + ["class Base0: ...", ""] + lines[pre:]
        b.expect.append({"kind": "class", "id": f"{MID}/Base0", "owner": MID, "name": "Base0", "superclasses": [], "exception": False})
        defs.insert(1 if doc else 0, shim.class_def("Base0", f"{MQ}.Base0", [ELL()]))
    if "conditional-definition" in b.features:
        pre = 3 + (1 if doc else 0)
        lines = lines[:pre] + ["c = bool(input())", ""] + lines[pre:]
        cv = shim.var("c", shim.instance("builtins.bool"), fullname=f"{MQ}.c", is_inferred=True)
        defs.insert(1 if doc else 0, shim.assignment([shim.name_expr("c", f"{MQ}.c", node=cv)]))
    if "decorated-function" in b.features:
        lines = lines[:3 + (1 if doc else 0)] + ["def deco(f):", "    return f", ""] + lines[3 + (1 if doc else 0):]
        b.expect.append({"kind": "function", "id": "pkg/m/deco", "owner": MID, "name": "deco"})
        deco = shim.func_def("deco", f"{MQ}.deco", [shim.argument("f", shim.ArgKind.ARG_POS)], annotated=False,
                             body=[shim.return_stmt(shim.name_expr("f", "f", node=shim.var("f", shim.unannotated())))])
        pos = 1 if doc else 0
        defs.insert(pos, deco)
    b.tree = shim.mypy_file(MQ, f"{MID}.py", defs=defs, imports=imports)
    b.source = "\n".join(lines) + "\n"
    return b


def conformance(limit: int = 150) -> dict:
    """Builders vs the real mypy: a spread of module trees is rendered to Python (one file each, one mypy build) and the
    real walker+visitor must produce the same API on real nodes, on their generic shim conversion and on builder nodes."""
    import json

    from harness.zoo import Cur, all_vectors
    from vlib import shim_conformance as SC

    vecs = list(all_vectors(lambda s: decode_module(s, Cur()), 24, limit=60000))
    step = max(1, len(vecs) // limit)
    vecs = vecs[::step][:limit]
    sources, trees = {"pkg/__init__.py": ""}, []
    for i, vec in enumerate(vecs):
        b = decode_module(list(vec), Cur(), mod=f"m{i}")
        sources[f"pkg/m{i}.py"] = b.source
        trees.append(b.tree)
    root = SC.write_package(sources)
    import shutil
    try:
        real, _ = SC.real_trees(root)
        real = sorted((t for t in real if not t.path.endswith("__init__.py")), key=lambda t: t.fullname)
        d_real, e_real = SC.run_visitor(real)
        shim.install()
        try:
            d_conv, e_conv = SC.run_visitor([shim.Converter().conv(t) for t in real])
            d_built, e_built = SC.run_visitor(sorted(trees, key=lambda t: t.fullname))
        finally:
            shim.uninstall()
    finally:
        shutil.rmtree(root, ignore_errors=True)
    canon = lambda d: json.dumps(d, sort_keys=True, default=str)  # noqa: E731
    strip = lambda es: sorted(e.split(": ", 1)[1] if ": " in e else e for e in es)  # noqa: E731
    out = {"modules": len(vecs), "grammar_size": len(list(vecs)), "real_vs_converted": canon(d_real) == canon(d_conv) and strip(e_real) == strip(e_conv),
           "real_vs_builder": canon(d_real) == canon(d_built) and strip(e_real) == strip(e_built),
           "errors_real": e_real[:4], "errors_builder": e_built[:4]}
    if not out["real_vs_builder"]:
        for k in d_real:
            if canon(d_real[k]) != canon(d_built[k]) and isinstance(d_real[k], list):
                rr = {x["id"]: x for x in d_real[k]}
                bb = {x["id"]: x for x in d_built[k]}
                diffs = [(i, rr.get(i), bb.get(i)) for i in sorted(set(rr) | set(bb)) if rr.get(i) != bb.get(i)]
                out["first_differences"] = {k: diffs[:2]}
                break
    return out
