"""C16 harnesses (Engine C): generation neither mutates the API model nor depends on earlier generations."""
from __future__ import annotations

from copy import deepcopy
from typing import List

import safeds_stubgen.stubs_generator._generate_stubs as GS
import safeds_stubgen.stubs_generator._stub_string_generator as SG
from harness.c02 import build_pkg
from harness.zoo import Cur, Names, build_function, rd
from oracle.recogniser import StubSyntaxError, parse
from vlib.gapi import FakePath, generate, install_fake_fs, mk_api, mk_class, mk_module
from vlib.hsupport import OutOfRange, fixed, judge, note, untraced

SEL_LEN = 10


def _diff_keys(a: dict, b: dict) -> list[str]:
    """Which top-level API lists changed, and in which field of which kind of element."""
    out = []
    for k in a:
        if a[k] != b[k]:
            if isinstance(a[k], list) and len(a[k]) == len(b[k]):
                fields = sorted({f for x, y in zip(a[k], b[k]) for f in x if x[f] != y.get(f)})
                out.append(f"{k}.{'+'.join(fields)}")
            else:
                out.append(k)
    return out


def repeat(sel: List[int]) -> bool:
    """
    pre: len(sel) == SEL_LEN and fixed(sel)
    post: _
    """
    try:
        cur = Cur()
        convert = rd(sel, cur, 2) == 1
        reuse = rd(sel, cur, 2) == 1  # second generation with the same generator object / with a fresh one
        api = build_pkg(sel, cur, 1)
    except OutOfRange:
        return True
    with untraced():  # serialisation is C12's subject; here it is only the observation
        d0 = deepcopy(api.to_dict())
    fs1, _, gen = generate(api, convert)
    with untraced():
        files1 = dict(fs1.files)
        d1 = api.to_dict()
    fs2, _, _ = generate(api, convert, generator=gen if reuse else None)
    with untraced():
        files2 = dict(fs2.files)
        d2 = api.to_dict()
    note("oracle")
    labels = []
    with untraced():
        if d1 != d0:
            labels += [f"model-mutated-by-generation:{k}" for k in _diff_keys(d0, d1)]
        elif d2 != d0:
            labels += [f"model-mutated-by-second-generation:{k}" for k in _diff_keys(d0, d2)]
        if files1 != files2:
            which = "same-generator-object" if reuse else "fresh-generator"
            if set(files1) != set(files2):
                labels.append(f"second-generation-differs:{which}:file-set")
            else:
                labels.append(f"second-generation-differs:{which}:texts")
    return judge(labels)


REEXPORTERS = ["pkg", "pkg/a", "pkg/a/b", "pkg/z", "pkg/z/y"]  # alphabetical order != order by depth


def reexporters(sel: List[int]) -> bool:
    """A class and a function re-exported by any subset of five packages (ancestors and non-ancestors of the defining
    module, shallower and deeper, by name or under an alias): generation leaves the model as it was and a second
    generation yields the same files.

    pre: len(sel) == SEL_LEN and fixed(sel)
    post: _
    """
    from vlib.gapi import INT, mk_function, mk_init_module

    try:
        cur = Cur()
        convert = rd(sel, cur, 2) == 1
        home = ["pkg/a/b/_impl", "pkg/core"][rd(sel, cur, 2)]
        subset = [r for r in REEXPORTERS if rd(sel, cur, 2) == 1]
        alias = rd(sel, cur, 2) == 1  # the shallowest re-exporter uses an alias
        if len(subset) < 2 or (alias and not subset):
            raise OutOfRange
    except OutOfRange:
        return True
    api = mk_api()
    hq = home.replace("/", ".")
    shallowest = min(subset, key=lambda r: (len(r.split("/")), r))
    for r in subset:
        al = alias and r == shallowest
        mk_init_module(api, r, imports=[(f"{hq}.Thing", "ThingAlias" if al else None), (f"{hq}.make_thing", "make_alias" if al else None)])
    m = mk_module(api, home)
    mk_class(api, m, "Thing")
    mk_function(api, m, "make_thing", results=[("result_1", INT)])
    user = mk_module(api, "pkg/user")
    from safeds_stubgen.api_analyzer._types import NamedType

    mk_function(api, user, "use", params=[{"name": "t", "type_": NamedType("Thing", f"{hq}.Thing")}], results=[("result_1", INT)])
    with untraced():
        d0 = deepcopy(api.to_dict())
    fs1, _, _ = generate(api, convert)
    with untraced():
        files1 = dict(fs1.files)
        d1 = deepcopy(api.to_dict())
    fs2, _, _ = generate(api, convert)
    note("oracle")
    labels = []
    with untraced():
        files2 = dict(fs2.files)
        d2 = api.to_dict()
        if d1 != d0:
            labels += [f"model-mutated-by-generation:{k}" for k in _diff_keys(d0, d1)]
        elif d2 != d0:
            labels += [f"model-mutated-by-second-generation:{k}" for k in _diff_keys(d0, d2)]
        if files1 != files2:
            labels.append("second-generation-differs:fresh-generator:" + ("file-set" if set(files1) != set(files2) else "texts"))
    return judge(labels)


def rerun_into_populated_dir(sel: List[int]) -> bool:
    """Second CLI-style run (fresh generator, fresh API built the same way) into the directory the first run filled.

    pre: len(sel) == SEL_LEN and fixed(sel)
    post: _
    """
    try:
        cur = Cur()
        convert = rd(sel, cur, 2) == 1
        api1 = build_pkg(sel, Cur(1), 1)
        api2 = build_pkg(sel, Cur(1), 1)
    except OutOfRange:
        return True
    fs = install_fake_fs()
    out = FakePath("/out")
    gen1 = SG.StubsStringGenerator(api=api1, convert_identifiers=convert)
    GS.create_stub_files(gen1, GS.generate_stub_data(gen1, out), out)
    files1 = dict(fs.files)
    gen2 = SG.StubsStringGenerator(api=api2, convert_identifiers=convert)
    GS.create_stub_files(gen2, GS.generate_stub_data(gen2, out), out)  # same (populated) file system
    files2 = dict(fs.files)
    note("oracle")
    labels = []
    if set(files1) != set(files2):
        labels.append("rerun:file-set-differs")
    elif files1 != files2:
        labels.append("rerun:contents-differ")
    return judge(labels)


def inherited_twice(sel: List[int]) -> bool:
    """A method of a private ancestor is rendered identically in every public subclass that inherits it.

    pre: len(sel) == SEL_LEN and fixed(sel)
    post: _
    """
    try:
        cur = Cur()
        shape = rd(sel, cur, 14)
        convert = rd(sel, cur, 2) == 1
        names = Names(rd(sel, cur, 2))
    except OutOfRange:
        return True
    api = mk_api()
    m = mk_module(api, "pkg/m")
    base = mk_class(api, m, "_Base", public=False)
    build_function(api, base, shape, names, method_kind=1, name="shared")
    mk_class(api, m, "PubA", supers=["pkg.m._Base"])
    mk_class(api, m, "PubB", supers=["pkg.m._Base"])
    with untraced():
        d0 = deepcopy(api.to_dict())
    gen = SG.StubsStringGenerator(api=api, convert_identifiers=convert)
    text, _ = gen(m)
    note("oracle")
    labels = []
    with untraced():
        if api.to_dict() != d0:
            labels += [f"model-mutated-by-generation:{k}" for k in _diff_keys(d0, api.to_dict())]
        try:
            f = parse(text)
        except StubSyntaxError as e:
            return judge([f"stub-syntax:{e.msg.split(';')[0]}"])
        cls = {d.pyname: d for d in f.decls}
        if "PubA" not in cls or "PubB" not in cls:
            return judge(["subclass-missing"])
        sa = [mm for mm in cls["PubA"].members if mm.pyname == "shared"]
        sb = [mm for mm in cls["PubB"].members if mm.pyname == "shared"]
        if len(sa) != 1 or len(sb) != 1:
            labels.append("inherited-method-not-once-per-subclass")
        else:
            ta = text[sa[0].pos:].split("\n\n")[0]
            tb = text[sb[0].pos:].split("\n\n")[0]
            if ta.rstrip("}\n ") != tb.rstrip("}\n "):
                labels.append("inherited-method-rendered-differently")
    return judge(labels)


def CANDIDATES(func: str):
    import itertools

    if func == "reexporters":
        for sel in itertools.product(range(2), range(2), *([range(2)] * 5), range(2)):
            yield [list(sel) + [0] * (SEL_LEN - len(sel))]
        return
    if func == "inherited_twice":
        for sel in itertools.product(range(14), range(2), range(2)):
            yield [list(sel) + [0] * 7]
    else:
        for sel in itertools.product(range(2), range(2), range(3), range(15), range(14), range(3), range(2)):
            yield [list(sel) + [0] * 3]


FOREIGN = ["ext.lib.A", "ext.lib.B", "other.lib.C", "ext.lib2.D", "a.b.lib.E"]


def rerun_foreign(sel: List[int]) -> bool:
    """Placeholder stubs for classes of other libraries: a second run into the populated directory leaves exactly the
    files and contents of a single run (first class of a module writes, further classes append - per run).

    pre: len(sel) == SEL_LEN and fixed(sel)
    post: _
    """
    try:
        cur = Cur()
        convert = rd(sel, cur, 2) == 1
        chosen = [q for q in FOREIGN if rd(sel, cur, 2) == 1]
        if not (1 <= len(chosen) <= 3):
            raise OutOfRange
    except OutOfRange:
        return True
    from safeds_stubgen.api_analyzer._types import NamedType
    from vlib.gapi import INT, mk_function

    def build():
        api = mk_api()
        m = mk_module(api, "pkg/m")
        mk_function(api, m, "f", params=[{"name": f"p{i}", "type_": NamedType(q.split(".")[-1], q)} for i, q in enumerate(chosen)],
                    results=[("result_1", INT)])
        return api

    fs = install_fake_fs()
    out = FakePath("/out")
    g1 = SG.StubsStringGenerator(api=build(), convert_identifiers=convert)
    GS.create_stub_files(g1, GS.generate_stub_data(g1, out), out)
    files1 = dict(fs.files)
    g2 = SG.StubsStringGenerator(api=build(), convert_identifiers=convert)
    GS.create_stub_files(g2, GS.generate_stub_data(g2, out), out)
    files2 = dict(fs.files)
    note("oracle")
    labels = []
    if set(files1) != set(files2):
        labels.append("rerun:file-set-differs")
    elif files1 != files2:
        labels.append("rerun:placeholder-stub-contents-differ")
    with untraced():
        for path, text in files1.items():
            if text.count("\nclass ") != len({ln for ln in text.split("\n") if ln.startswith("class ")}):
                labels.append("placeholder-class-emitted-twice-in-one-run")
    return judge(labels)
