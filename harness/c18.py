"""C18 harnesses (Engine C): a module's stub depends only on what the module uses."""
from __future__ import annotations

from typing import List

import safeds_stubgen.api_analyzer._ast_visitor as V
import safeds_stubgen.api_analyzer._ast_walker as W
from harness.c06 import make_visitor
from harness.gast import decode_module
from harness.zoo import Cur, rd
from safeds_stubgen.api_analyzer import API, TypeSourcePreference, TypeSourceWarning
from safeds_stubgen.api_analyzer._api import TypeParameter, VarianceKind
from safeds_stubgen.api_analyzer._types import NamedType, TypeVarType
from safeds_stubgen.docstring_parsing import PlaintextDocstringParser
from vlib import shim
from vlib.gapi import INT, generate, mk_api, mk_class, mk_function, mk_module, self_param
from vlib.hsupport import OutOfRange, fixed, judge, note, untraced

SEL_LEN = 24
U_IDS = ["pkg/u", "pkg/deep/u", "pkg/m2", "other/u"]
U_CLASSES = ["Unrelated", "X", "XFoo", "Foo", "GenericT"]
QUALS = ["full", "partial", "bare"]


def _dec_unrelated(sel):
    cur = Cur()
    convert = rd(sel, cur, 2) == 1
    tname = ["X", "Foo"][rd(sel, cur, 2)]
    qual = QUALS[rd(sel, cur, 3)]
    uid = U_IDS[rd(sel, cur, len(U_IDS))]
    ucls = U_CLASSES[rd(sel, cur, len(U_CLASSES))]
    first = rd(sel, cur, 2) == 1  # U analysed before the other modules
    return convert, tname, qual, uid, ucls, first


def unrelated_module(sel: List[int]) -> bool:
    """stub(M) is byte-identical with and without an unrelated module U (U is not referenced by M, does not re-export
    anything, and is not an ancestor package of M).

    pre: len(sel) == SEL_LEN and fixed(sel)
    post: _
    """
    try:
        convert, tname, qual, uid, ucls, first = _dec_unrelated(sel)
    except OutOfRange:
        return True

    def build(with_u: bool):
        api = mk_api()
        def add_u():
            if ucls == "GenericT":  # a class generic in T (an unbounded invariant type parameter)
                mk_class(api, mk_module(api, uid), "Box", type_parameters=[TypeParameter("T", None, VarianceKind.INVARIANT)])
            else:
                mk_class(api, mk_module(api, uid), ucls)

        if with_u and first:
            add_u()
        n = mk_module(api, "pkg/n")
        mk_class(api, n, tname)
        m = mk_module(api, "pkg/m")
        tq = f"pkg.n.{tname}"
        ref = NamedType(tname, {"full": tq, "partial": f"n.{tname}", "bare": tname}[qual])
        mk_function(api, m, "f", params=[{"name": "p", "type_": ref}], results=[("result_1", ref)])
        c = mk_class(api, m, "User", supers=[tq])
        mk_function(api, c, "g", params=[self_param()], results=[("result_1", INT)])
        tv = TypeVarType("T", None)
        plain = mk_class(api, m, "Plain")
        mk_function(api, plain, "tag", params=[self_param(), {"name": "label", "type_": tv}], results=[("result_1", tv)], type_vars=[tv])
        if with_u and not first:
            add_u()
        return api

    fa, _, _ = generate(build(False), convert)
    text_a = fa.files.get("/out/pkg/m/m.sdsstub")
    fb, _, _ = generate(build(True), convert)
    text_b = fb.files.get("/out/pkg/m/m.sdsstub")
    note("oracle")
    if text_a != text_b:
        if ucls == "GenericT":
            cause = "generic-class-in-unrelated-module"
        elif ucls == tname:
            cause = "same-class-name-in-unrelated-module"
        elif ucls.endswith(tname):
            cause = "class-name-is-suffix-of-unrelated-class-name"
        else:
            cause = "other"
        return judge([f"stub-changes-with-unrelated-module:{cause}:{qual}-reference"])
    return True


ALIAS_U = ["pkg.u.T", "pkg.deep.u.T", "pkg.mm.T"]


def _dec_alias(sel):
    cur = Cur()
    current = ["pkg.m", "pkg.n"][rd(sel, cur, 2)]
    imported = rd(sel, cur, 2) == 1  # the current module imports T from pkg.m by name
    extra = ALIAS_U[rd(sel, cur, len(ALIAS_U))]
    return current, imported, extra


def alias_table(sel: List[int]) -> bool:
    """The type a module resolves for the name T does not change when an unrelated module defines another T.

    pre: len(sel) == SEL_LEN and fixed(sel)
    post: _
    """
    try:
        current, imported, extra = _dec_alias(sel)
    except OutOfRange:
        return True

    def run(with_u: bool):
        shim.install()
        vis = make_visitor(False)
        vis.mypy_file = shim.mypy_file(current, current.replace(".", "/") + ".py")
        mod = vis._MyPyAstVisitor__declaration_stack[0]
        mod.id, mod.name = current.replace(".", "/"), current.split(".")[-1]
        if imported:
            from safeds_stubgen.api_analyzer._api import QualifiedImport

            mod.qualified_imports.append(QualifiedImport("pkg.m.T", None))
        vis.aliases = {"T": {"pkg.m.T"} | ({extra} if with_u else set())}
        t = vis.mypy_type_to_abstract_type(shim.unbound("T"))
        return t.to_dict()

    a, b = run(False), run(True)
    note("oracle")
    if a != b:
        return judge(["resolved-type-changes-with-unrelated-definition:" + ("name-not-imported-and-defined-elsewhere" if not imported else "other")])
    return True


def _dec_perm(sel):
    b = decode_module(sel, Cur())
    return b


def _api_of(tree):
    api = API("", "pkg", "")
    vis = V.MyPyAstVisitor(PlaintextDocstringParser(), api, {}, TypeSourcePreference.CODE, TypeSourceWarning.IGNORE)
    W.ASTWalker(vis).walk(tree)
    return api.to_dict()


def permutation(sel: List[int]) -> bool:
    """Reversing the top-level definitions of a module only permutes the module's own lists in the API: every
    declaration's record is unchanged.

    pre: len(sel) == SEL_LEN and fixed(sel)
    post: _
    """
    try:
        a = decode_module(sel, Cur())
        b = decode_module(sel, Cur(), swap=True)
    except OutOfRange:
        return True
    shim.install()
    da, db = _api_of(a.tree), _api_of(b.tree)
    note("oracle")
    labels = []
    with untraced():
        for key in da:
            if key in ("modules",):
                continue
            if da[key] != db[key]:
                labels.append(f"declaration-record-changes-with-order:{key}")
        ma, mb = da["modules"][0], db["modules"][0]
        for key in ("classes", "functions", "enums"):
            if sorted(ma[key]) != sorted(mb[key]):
                labels.append("module-lists-not-a-permutation")
    return judge(labels)


def CANDIDATES(func: str):
    from harness.zoo import all_vectors

    if func == "forward_reference":
        yield from _cand_forward()
        return
    if func == "typevar_state":
        for u in range(4):
            for a in range(4):
                yield [[u, a] + [0] * (SEL_LEN - 2)]
        return

    dec = {"unrelated_module": _dec_unrelated, "alias_table": _dec_alias, "permutation": _dec_perm}[func]
    for vec in all_vectors(dec, SEL_LEN):
        yield [vec]


def forward_reference(sel: List[int]) -> bool:
    """A function annotated with the (unanalysable) 'list[A, int]' where A is a class of the same module: the
    parameter's record must not depend on whether the class is defined before or after the function.

    pre: len(sel) == SEL_LEN and fixed(sel)
    post: _
    """
    try:
        cur = Cur()
        container = ["list", "set"][rd(sel, cur, 2)]
        in_alias_table = rd(sel, cur, 2) == 1
    except OutOfRange:
        return True
    shim.install()

    def run(class_first: bool):
        ann = shim.unbound(container, [shim.unbound("A"), shim.unbound("int")])
        arg = shim.argument("p", shim.ArgKind.ARG_POS, annotation=ann,
                            var_type=shim.instance(f"builtins.{container}", [shim.any_type(shim.TypeOfAny.from_error)]))
        f = shim.func_def("f", "pkg.m.f", [arg], ret=shim.instance("builtins.int"))
        a = shim.class_def("A", "pkg.m.A", [shim.expr_stmt(shim.mk(shim.N.EllipsisExpr))])
        tree = shim.mypy_file("pkg.m", "pkg/m.py", defs=[a, f] if class_first else [f, a])
        api = API("", "pkg", "")
        vis = V.MyPyAstVisitor(PlaintextDocstringParser(), api, {"A": {"pkg.m.A"}} if in_alias_table else {},
                               TypeSourcePreference.CODE, TypeSourceWarning.IGNORE)
        W.ASTWalker(vis).walk(tree)
        return api.to_dict()["parameters"]

    a, b = run(True), run(False)
    note("oracle")
    if a != b:
        return judge(["parameter-type-depends-on-definition-order:" + ("class-not-in-alias-table" if not in_alias_table else "other")])
    return True


def _cand_forward():
    for a in range(2):
        for b in range(2):
            yield [[a, b] + [0] * 22]


# ------------------------------------------------------------------------------------------------- visitor state between declarations
_TV_SOURCES = {
    "pkg/__init__.py": "",
    # unrelated modules: a generic class with class-level attributes typed by its type variable
    "pkg/a0.py": "from typing import Generic, TypeVar\n\nT = TypeVar('T')\n\n\nclass Box(Generic[T]):\n    value: T\n",
    "pkg/a1.py": "from typing import Generic, TypeVar\n\nT = TypeVar('T')\n\n\nclass Box(Generic[T]):\n    items: list[T]\n    other: int\n",
    "pkg/a2.py": "from typing import Generic, TypeVar\n\nT = TypeVar('T')\n\n\nclass Box(Generic[T]):\n    def get(self) -> T: ...\n    value: T\n",
    "pkg/a3.py": "from typing import TypeVar\n\nT = TypeVar('T')\n\n\ndef ident(x: T) -> T: ...\n",
    # the module under observation
    "pkg/m.py": "from typing import TypeVar\n\nU = TypeVar('U')\n\n\ndef helper(x: int) -> int: ...\n\n\nclass Plain:\n    def meth(self, x: int) -> int: ...\n\n\ndef g(y: U) -> U: ...\n",
    # the same declarations inside one module, class first / function first
    "pkg/s0.py": "from typing import Generic, TypeVar\n\nT = TypeVar('T')\n\n\nclass Box(Generic[T]):\n    value: T\n\n\ndef helper(x: int) -> int: ...\n",
    "pkg/s1.py": "from typing import Generic, TypeVar\n\nT = TypeVar('T')\n\n\ndef helper(x: int) -> int: ...\n\n\nclass Box(Generic[T]):\n    value: T\n",
}
_TV_TREES: dict = {}


def _tv_trees():
    """The real mypy trees of _TV_SOURCES, converted to shim trees once per process (natively)."""
    if not _TV_TREES:
        import shutil

        from vlib import shim_conformance as SC

        with untraced():
            root = SC.write_package(_TV_SOURCES)
            try:
                real, _ = SC.real_trees(root)
                shim.install()
                for t in real:
                    _TV_TREES[t.fullname] = t
            finally:
                shutil.rmtree(root, ignore_errors=True)
    return _TV_TREES


PREPARE_typevar_state = _tv_trees  # the worker calls this natively before the symbolic run


def _type_vars_after(order: list) -> dict:
    """Walk the modules in the given order with ONE visitor (as get_api does); function id -> names of its type variables."""
    trees = _tv_trees()
    api = API("", "pkg", "")
    vis = V.MyPyAstVisitor(PlaintextDocstringParser(), api, {}, TypeSourcePreference.CODE, TypeSourceWarning.IGNORE)
    walker = W.ASTWalker(vis)
    with untraced():  # the real->shim conversion is not the code under test
        conv = shim.Converter()
        converted = [conv.conv(trees[name]) for name in order]
    for tree in converted:
        walker.walk(tree)
    return {fid: sorted(tv.name for tv in f.type_var_types) for fid, f in api.functions.items()}


def typevar_state(sel: List[int]) -> bool:
    """The type variables recorded for a function are those of its own signature: they do not depend on which module was
    analysed before (an unrelated generic class with TypeVar-typed class attributes) nor on the order of definitions.

    pre: len(sel) == SEL_LEN and fixed(sel)
    post: _
    """
    try:
        cur = Cur()
        unrelated = rd(sel, cur, 4)
        arrangement = rd(sel, cur, 4)  # unrelated module walked first / last / first and (a second copy) last / same-module pair s0 vs s1
    except OutOfRange:
        return True
    u = f"pkg.a{unrelated}"
    if arrangement == 3:
        if unrelated:
            return True
        a = {k.split("/")[-1]: v for k, v in _type_vars_after(["pkg.s0"]).items()}
        b = {k.split("/")[-1]: v for k, v in _type_vars_after(["pkg.s1"]).items()}
        want = {"helper": []}
    else:
        order = [[u, "pkg.m"], ["pkg.m", u], [u, "pkg.m", f"pkg.a{(unrelated + 1) % 4}"]][arrangement]
        a = {k: v for k, v in _type_vars_after(order).items() if k.startswith("pkg/m/")}
        b = {k: v for k, v in _type_vars_after(["pkg.m"]).items()}
        want = {"pkg/m/helper": [], "pkg/m/Plain/meth": [], "pkg/m/g": ["U"]}
    note("oracle")
    labels = []
    with untraced():
        if a != b:
            labels.append("function-type-variables-depend-on-what-was-analysed-before")
        for k, v in want.items():
            if a.get(k) != v:
                labels.append("function-type-variables-differ-from-its-signature")
    return judge(sorted(set(labels)))

