"""C20 harnesses (Engine C): TODO markers sit exactly on the declarations whose own features require them."""
from __future__ import annotations

from typing import List

import safeds_stubgen.stubs_generator._stub_string_generator as SG
from harness.zoo import N_CLS_SHAPES, N_FUN_SHAPES, Cur, Names, build_class, build_function, rd
from oracle.recogniser import StubSyntaxError, parse, parse_decl
from oracle.todo_ref import BY_TEXT, TEXT, attribute_markers, class_markers, function_markers, property_markers
from safeds_stubgen.api_analyzer._types import NamedType
from vlib.gapi import mk_api, mk_class, mk_module, module_text
from vlib.hsupport import THOROUGH, OutOfRange, fixed, judge, note, untraced

SEL_LEN = 8


def _todo_keys(d) -> set:
    return {BY_TEXT.get(t, "?" + t) for t in d.todos}


def _compare(d, want: set, what: str, labels: list) -> None:
    got = _todo_keys(d)
    for k in sorted(want - got):
        labels.append(f"missing:{k}@{what}")
    for k in sorted(got - want):
        labels.append(f"spurious:{k}@{what}")


def _check_class(d, c, labels):
    _compare(d, class_markers(c), "class", labels)
    members = {m.pyname: m for m in d.members}
    for a in c.attributes:
        if a.is_public and a.name in members:
            _compare(members[a.name], attribute_markers(a), "attribute", labels)
    for f in c.methods:
        if f.is_public and f.name in members:
            if f.is_property:
                _compare(members[f.name], property_markers(f), "property", labels)
            else:
                _compare(members[f.name], function_markers(f, True), "method", labels)
    for inner in c.classes:
        if inner.is_public and inner.name in members:
            _check_class(members[inner.name], inner, labels)


def sequence(sel: List[int]) -> bool:
    """
    pre: len(sel) == SEL_LEN and fixed(sel)
    post: _
    """
    try:
        cur = Cur()
        layout = rd(sel, cur, 3)  # 0: f g | 1: f class | 2: class(members) f
        names = Names(0)
        api = mk_api()
        n = mk_module(api, "pkg/n")
        other = mk_class(api, n, "Other")
        ref = NamedType("Other", "pkg.n.Other")
        m = mk_module(api, "pkg/m")
        decls = []
        if layout == 0:
            decls.append(build_function(api, m, rd(sel, cur, N_FUN_SHAPES), names, cls_ref=ref))
            decls.append(build_function(api, m, rd(sel, cur, N_FUN_SHAPES), names, cls_ref=ref))
            if THOROUGH:
                decls.append(build_function(api, m, rd(sel, cur, N_FUN_SHAPES), names, cls_ref=ref))
        elif layout == 1:
            decls.append(build_function(api, m, rd(sel, cur, N_FUN_SHAPES), names, cls_ref=ref))
            decls.append(build_class(api, m, rd(sel, cur, N_CLS_SHAPES), names, other=other))
        else:
            decls.append(build_class(api, m, rd(sel, cur, N_CLS_SHAPES), names, other=other))
            decls.append(build_function(api, m, rd(sel, cur, N_FUN_SHAPES), names, cls_ref=ref))
    except OutOfRange:
        return True
    text = module_text(api, m, False)
    note("oracle")
    labels = []
    with untraced():
        try:
            f = parse(text)
        except StubSyntaxError as e:
            return judge([f"stub-syntax:{e.msg.split(';')[0]}"])
        if f.leading_todos:
            labels.append("marker-before-package-header")
        top = {d.pyname: d for d in f.decls}
        # the generator emits functions first, then classes
        for decl in decls:
            if getattr(decl, "inherits_from_exception", False):
                continue
            d = top.get(decl.name)
            if d is None:
                labels.append("declaration-missing")
                continue
            if hasattr(decl, "superclasses"):
                _check_class(d, decl, labels)
            else:
                _compare(d, function_markers(decl, False), "function", labels)
    return judge(labels)


KEYS = sorted(k for k in TEXT if k not in ("unknown_type",))
GEN_KEY = {  # the generator's internal marker names (state of the pending set), typed in
    "tuple": "no tuple support", "set": "no set support", "list_args": "List", "set_args": "Set",
    "opt_pos_only": "OPT_POS_ONLY", "req_name_only": "REQ_NAME_ONLY", "multi_inherit": "multiple_inheritance",
    "variadic": "variadic", "class_method": "class_method", "param_no_type": "param without type",
    "attr_no_type": "attr without type", "result_no_type": "result without type", "unknown_value": "unknown value",
    "internal_type": "internal class as type",
}


def flush_step(sel: List[int]) -> bool:
    """One inductive step: from an ARBITRARY pending-marker set, rendering one declaration emits pending + own markers
    on that declaration and leaves the pending set empty; __call__ starts from the empty set.

    pre: len(sel) == SEL_LEN and fixed(sel)
    post: _
    """
    try:
        cur = Cur()
        kind = rd(sel, cur, 4)  # function, class, attribute(s) of a class, property
        shape = rd(sel, cur, N_FUN_SHAPES)
        if kind != 0 and shape >= N_CLS_SHAPES:
            raise OutOfRange
        pend = set()
        for _ in range(2):
            i = rd(sel, cur, len(KEYS) + 1)
            if i < len(KEYS):
                pend.add(KEYS[i])
        names = Names(0)
        api = mk_api()
        n = mk_module(api, "pkg/n")
        other = mk_class(api, n, "Other")
        m = mk_module(api, "pkg/m")
        if kind == 0:
            decl = build_function(api, m, shape, names, cls_ref=NamedType("Other", "pkg.n.Other"))
        elif kind == 1:
            decl = build_class(api, m, shape, names, other=other)
        elif kind == 2:
            decl = build_class(api, m, 2 if shape % 2 == 0 else 11, names, other=other)
        else:
            decl = build_class(api, m, 4, names, other=other)
    except OutOfRange:
        return True
    gen = SG.StubsStringGenerator(api=api, convert_identifiers=False)
    gen(mk_module(mk_api(), "pkg/m"))  # __call__ on a module: establishes the per-module state
    if gen._current_todo_msgs != set():
        return judge(["state:call-does-not-start-empty"])
    gen._set_module_id("pkg/m")
    gen._current_todo_msgs = {GEN_KEY[k] for k in pend}
    if kind == 0:
        text = gen._create_function_string(decl)
        want = function_markers(decl, False)
    elif kind == 1:
        text = gen._create_class_string(decl)
        want = class_markers(decl)
    elif kind == 2:
        text, _ = gen._create_class_attribute_string(decl.attributes, "")
        pub = [a for a in decl.attributes if a.is_public]
        want = attribute_markers(pub[0])
        text = "class X {" + text + "}"
    else:
        f = decl.methods[0]
        text = "class X {\n" + gen._create_property_function_string(f, "") + "\n}"
        want = property_markers(f)
    after = set(gen._current_todo_msgs)
    note("oracle")
    labels = []
    if after != set():
        labels.append("state:pending-set-not-empty-after-declaration")
    with untraced():
        try:
            d = parse_decl(text)
        except StubSyntaxError as e:
            return judge([f"stub-syntax:{e.msg.split(';')[0]}"])
        if kind >= 2:
            d = d.members[0]
        if kind == 1 and decl.inherits_from_exception:
            pass
        _compare(d, want | pend, ["function", "class", "attribute", "property"][kind] + "+pending", labels)
    return judge(labels)


def CANDIDATES(func: str):
    import itertools

    if func == "sequence":
        for sel in itertools.product(range(3), range(14), range(14)):
            yield [list(sel) + [0] * 5]
    else:
        for sel in itertools.product(range(4), range(14), range(len(KEYS) + 1), [len(KEYS)]):
            yield [list(sel) + [0] * 4]


from oracle.todo_ref import param_features  # noqa: E402
from safeds_stubgen.api_analyzer._api import UnknownValue  # noqa: E402
from safeds_stubgen.api_analyzer._types import ListType, SetType, TupleType  # noqa: E402
from vlib.gapi import INT, PA, STR, mk_function  # noqa: E402

KINDS = [PA.POSITION_ONLY, PA.POSITION_OR_NAME, PA.POSITIONAL_VARARG, PA.NAME_ONLY, PA.NAMED_VARARG]
PTYPES = [None, INT, TupleType([INT]), TupleType([INT, STR]), SetType([INT, STR]), ListType([INT, STR]), ListType([SetType([STR])])]


def param_table(sel: List[int]) -> bool:
    """Decision table of the per-parameter markers: one or two parameters, every kind x type shape x optionality x
    default kind, for functions and for methods (receiver skipped).

    pre: len(sel) == SEL_LEN and fixed(sel)
    post: _
    """
    try:
        cur = Cur()
        is_method = rd(sel, cur, 2) == 1
        nparams = 1 + rd(sel, cur, 2)
        params = []
        if is_method:
            params.append({"name": "self", "kind": PA.IMPLICIT})
        for i in range(nparams):
            if i == 0 or THOROUGH:
                kind = KINDS[rd(sel, cur, 5)]
                ty = PTYPES[rd(sel, cur, len(PTYPES))]
                dk = rd(sel, cur, 5)  # no default, None, int, UnknownValue, str
            else:  # quick tier: the second parameter ranges over 6 combinations
                kind = [PA.POSITION_ONLY, PA.NAME_ONLY, PA.POSITIONAL_VARARG][rd(sel, cur, 3)]
                ty = INT
                dk = [0, 2][rd(sel, cur, 2)]
            if ty is None and dk != 0:
                raise OutOfRange  # model invariant: a literal default implies a type
            default = [None, None, 7, UnknownValue(), '"s"'][dk]
            params.append({"name": f"p{i}", "type_": ty, "kind": kind, "optional": dk != 0, "default": default})
    except OutOfRange:
        return True
    api = mk_api()
    m = mk_module(api, "pkg/m")
    owner = mk_class(api, m, "C") if is_method else m
    f = mk_function(api, owner, "f", params=params, results=[("result_1", INT)])
    gen = SG.StubsStringGenerator(api=api, convert_identifiers=False)
    gen(mk_module(mk_api(), "pkg/m"))
    gen._set_module_id("pkg/m")
    text = gen._create_function_string(f, is_method=is_method)
    note("oracle")
    labels = []
    with untraced():
        try:
            d = parse_decl(text)
        except StubSyntaxError as e:
            return judge([f"stub-syntax:{e.msg.split(';')[0]}"])
        _compare(d, param_features(f.parameters, skip_first=is_method), "parameter-table", labels)
    return judge(labels)
