"""C05 positions harness (Engine C on the mypy shim): the same annotation gives the same API type as parameter,
constructor parameter, result, class attribute and constructor-assigned instance attribute."""
from __future__ import annotations

from typing import List

import safeds_stubgen.api_analyzer._ast_visitor as V
import safeds_stubgen.api_analyzer._ast_walker as W
from harness.c05 import SMALL, legal, mypy_type, term1
from harness.zoo import Cur, rd
from oracle.typemap import canon_api, ref
from safeds_stubgen.api_analyzer import API, TypeSourcePreference, TypeSourceWarning
from safeds_stubgen.docstring_parsing import PlaintextDocstringParser
from vlib import shim
from vlib.hsupport import OutOfRange, fixed, judge, note, untraced

SEL_LEN = 14
INT = ("int",)
OUTER = ["none", "list", "optional", "dict-value"]


def decode(sel, cur):
    o = OUTER[rd(sel, cur, len(OUTER))]
    inner = term1(sel, cur, SMALL)
    if "'typevar'" in repr(inner) or "'generic'" in repr(inner):
        raise OutOfRange  # type variables and the generic class need extra definitions: covered by the term harness
    t = {"none": inner, "list": ("list", inner), "optional": ("optional", inner), "dict-value": ("dict", ("str",), inner)}[o]
    if not legal(t):
        raise OutOfRange
    return t


def src(t) -> str:
    k = t[0]
    if k in ("int", "str", "bool", "float", "None", "Any"):
        return k
    if k == "cls":
        return t[1]
    if k == "list":
        return f"list[{src(t[1])}]"
    if k == "seq":
        return f"Sequence[{src(t[1])}]"
    if k == "coll":
        return f"Collection[{src(t[1])}]"
    if k == "set":
        return f"set[{src(t[1])}]"
    if k == "tuple":
        return "tuple[" + ", ".join(src(x) for x in t[1]) + "]"
    if k == "dict":
        return f"dict[{src(t[1])}, {src(t[2])}]"
    if k == "mapping":
        return f"Mapping[{src(t[1])}, {src(t[2])}]"
    if k == "union":
        return " | ".join(src(x) for x in t[1])
    if k == "optional":
        return f"{src(t[1])} | None"
    if k == "literal":
        return "Literal[" + ", ".join(repr(v).replace("'", '"') for v in t[1]) + "]"
    if k == "callable":
        return "Callable[[" + ", ".join(src(x) for x in t[1]) + f"], {src(t[2])}]"
    if k == "generic":
        return f"Gen[{src(t[3][0])}]"
    raise ValueError(k)


def unbound(t):
    """The un-analysed form mypy keeps for an annotation (UnboundType tree; X | Y is a UnionType of unbound items)."""
    k = t[0]
    if k in ("int", "str", "bool", "float", "None", "Any"):
        return shim.unbound(k)
    if k == "cls":
        return shim.unbound(t[1])
    if k in ("list", "seq", "coll", "set"):
        return shim.unbound({"list": "list", "seq": "Sequence", "coll": "Collection", "set": "set"}[k], [unbound(t[1])])
    if k == "tuple":
        return shim.unbound("tuple", [unbound(x) for x in t[1]])
    if k in ("dict", "mapping"):
        return shim.unbound("dict" if k == "dict" else "Mapping", [unbound(t[1]), unbound(t[2])])
    if k == "union":
        return shim.union([unbound(x) for x in t[1]])
    if k == "optional":
        return shim.union([unbound(t[1]), shim.unbound("None")])
    if k == "literal":
        return shim.unbound("Literal", [shim.mk(shim.T.RawExpressionType, literal_value=v, base_type_name="builtins.str") for v in t[1]])
    if k == "callable":
        return shim.unbound("Callable", [shim.mk(shim.T.TypeList, items=[unbound(x) for x in t[1]]), unbound(t[2])])
    if k == "generic":
        return shim.unbound("Gen", [unbound(x) for x in t[3]])
    raise ValueError(k)


def build(t, mod="m"):
    mq = f"pkg.{mod}"
    ell = lambda: shim.expr_stmt(shim.mk(shim.N.EllipsisExpr))  # noqa: E731
    fix = lambda ty: ty  # noqa: E731

    def mt():
        x = mypy_type(_requal(t, mq))
        return fix(x)

    klass = shim.class_def("Klass", f"{mq}.Klass", [ell()])
    f = shim.func_def("f", f"{mq}.f", [shim.argument("p", shim.ArgKind.ARG_POS, annotation=mt())], ret=mt(), body=[ell()],
                      unanalyzed_ret=unbound(t))
    f.arguments[0].__dict__["type_annotation"] = unbound(t)
    a_var = shim.var("a", mt(), fullname=f"{mq}.K.a")
    a = shim.assignment([shim.name_expr("a", "a", node=a_var)], unanalyzed_type=unbound(t))
    b_var = shim.var("b", mt(), fullname=f"{mq}.K.b")
    b = shim.assignment([shim.member_expr("b", shim.self_expr(), node=b_var)], unanalyzed_type=unbound(t))
    init = shim.func_def("__init__", f"{mq}.K.__init__", [shim.argument("self", shim.ArgKind.ARG_POS, is_self=True),
                                                          shim.argument("q", shim.ArgKind.ARG_POS, annotation=mt())],
                         ret=shim.none_type(), body=[b])
    init.arguments[1].__dict__["type_annotation"] = unbound(t)
    k = shim.class_def("K", f"{mq}.K", [a, init])
    imports = [shim.import_from("collections.abc", [("Callable", None), ("Collection", None), ("Mapping", None), ("Sequence", None)]),
               shim.import_from("typing", [("Any", None), ("Literal", None)])]
    tree = shim.mypy_file(mq, f"pkg/{mod}.py", defs=[klass, f, k], imports=imports)
    source = (
        "from collections.abc import Callable, Collection, Mapping, Sequence\nfrom typing import Any, Literal\n\n\n"
        "class Klass: ...\n\n\n"
        f"def f(p: {src(t)}) -> {src(t)}: ...\n\n\n"
        f"class K:\n    a: {src(t)}\n\n    def __init__(self, q: {src(t)}) -> None:\n        self.b: {src(t)} = q\n"
    )
    return tree, source


def _requal(t, mq):
    """Class references point into the module under construction."""
    if t[0] == "cls":
        return ("cls", t[1], f"{mq}.{t[1]}")
    out = []
    for x in t:
        if isinstance(x, tuple) and x and isinstance(x[0], str):
            out.append(_requal(x, mq))
        elif isinstance(x, list):
            out.append([_requal(y, mq) if isinstance(y, tuple) else y for y in x])
        else:
            out.append(x)
    return tuple(out)


def positions(sel: List[int]) -> bool:
    """
    pre: len(sel) == SEL_LEN and fixed(sel)
    post: _
    """
    try:
        t = decode(sel, Cur())
    except OutOfRange:
        return True
    shim.install()
    tree, _ = build(t)
    api = API("", "pkg", "")
    vis = V.MyPyAstVisitor(PlaintextDocstringParser(), api, {}, TypeSourcePreference.CODE, TypeSourceWarning.IGNORE)
    W.ASTWalker(vis).walk(tree)
    note("oracle")
    labels = []
    with untraced():
        d = api.to_dict()
        want = ref(t)
        params = {p["id"]: p for p in d["parameters"]}
        attrs = {a["id"]: a for a in d["attributes"]}
        results = [r for r in d["results"] if r["id"].startswith("pkg/m/f/")]
        got = {
            "parameter": canon_api(params["pkg/m/f/p"]["type"]),
            "constructor-parameter": canon_api(params["pkg/m/K/__init__/q"]["type"]),
            "class-attribute": canon_api(attrs["pkg/m/K/a"]["type"]) if attrs["pkg/m/K/a"]["type"] else None,
            "instance-attribute": canon_api(attrs["pkg/m/K/b"]["type"]) if attrs["pkg/m/K/b"]["type"] else None,
        }
        if t[0] == "tuple":
            got["result"] = ("Tuple", tuple(canon_api(r["type"]) for r in results))
        elif t[0] == "None":
            got["result"] = "Nothing?" if len(results) == 1 and canon_api(results[0]["type"]) == "Nothing?" else ("results", len(results))
        else:
            got["result"] = canon_api(results[0]["type"]) if len(results) == 1 else ("results", len(results))
        for pos, g in got.items():
            if g != want:
                if g is None and t[0] == "callable":
                    cause = "attribute-of-callable-type-loses-its-type"
                elif pos == "class-attribute" and t[0] == "list":
                    cause = "list-elements-re-resolved-from-the-unanalysed-annotation"
                else:
                    cause = "other"
                labels.append(f"position-differs:{pos}:{cause}")
    return judge(labels)


def CANDIDATES(func: str):
    from harness.zoo import all_vectors

    for vec in all_vectors(lambda s: decode(s, Cur()), SEL_LEN):
        yield [vec]


def conformance(limit: int = 120) -> dict:
    import json
    import shutil

    from harness.zoo import all_vectors
    from vlib import shim_conformance as SC

    vecs = list(all_vectors(lambda s: decode(s, Cur()), SEL_LEN))
    step = max(1, len(vecs) // limit)
    vecs = vecs[::step][:limit]
    sources, trees = {"pkg/__init__.py": ""}, []
    for i, vec in enumerate(vecs):
        t = decode(list(vec), Cur())
        tree, source = build(t, mod=f"m{i}")
        sources[f"pkg/m{i}.py"] = source
        trees.append(tree)
    root = SC.write_package(sources)
    try:
        real, _ = SC.real_trees(root)
        real = sorted((x for x in real if not x.path.endswith("__init__.py")), key=lambda x: x.fullname)
        d_real, e_real = SC.run_visitor(real)
        shim.install()
        try:
            d_conv, e_conv = SC.run_visitor([shim.Converter().conv(x) for x in real])
            d_built, e_built = SC.run_visitor(sorted(trees, key=lambda x: x.fullname))
        finally:
            shim.uninstall()
    finally:
        shutil.rmtree(root, ignore_errors=True)
    canon = lambda d: json.dumps(d, sort_keys=True, default=str)  # noqa: E731
    out = {"modules": len(vecs), "real_vs_converted": canon(d_real) == canon(d_conv), "real_vs_builder": canon(d_real) == canon(d_built),
           "errors_real": e_real[:3], "errors_builder": e_built[:3]}
    if not out["real_vs_builder"]:
        for k in ("parameters", "attributes", "results", "functions", "classes"):
            rr = {x["id"]: x for x in d_real[k]}
            bb = {x["id"]: x for x in d_built[k]}
            diffs = [(i, rr.get(i, {}).get("type", rr.get(i)), bb.get(i, {}).get("type", bb.get(i))) for i in sorted(set(rr) | set(bb)) if rr.get(i) != bb.get(i)]
            if diffs:
                out["first_differences"] = {k: diffs[:4]}
                out["n_diffs"] = len(diffs)
                break
    return out


if __name__ == "__main__":
    import json
    import logging

    logging.disable(logging.CRITICAL)
    print(json.dumps(conformance(), indent=1, default=str)[:5000])


def conformance_job() -> dict:
    import logging
    import time

    logging.disable(logging.CRITICAL)
    t = time.time()
    r = conformance()
    ok = r["real_vs_converted"] and r["real_vs_builder"] and not r["errors_real"]
    return {"queries": [{"id": "shim_conformance", "verdict": "holds" if ok else "harness_error", "seconds": round(time.time() - t, 1),
                         "bound": f"{r['modules']} modules (annotation in five positions) rendered to Python and parsed by the real mypy",
                         "detail": "" if ok else str(r)[:1500]}],
            "validation": {"samples": r["modules"], "mismatches": 0 if ok else 1, "details": []}}
