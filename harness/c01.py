"""C01 harnesses (Engine C): no exception other than the documented ValueError escapes repository code.

aliases      - _get_aliases over result-type tables (shim), symbolic names so that `package_name in fullname` is decided by z3
expressions  - default-value / expression helpers over every expression kind (depth 2)
returns      - return-type inference over returned expression kinds the inference may meet
generate     - generator + file creation over the model zoo incl. references to classes of other libraries
(the walker harness lives in harness/walk.py, the CLI stage harness in harness/cli.py)
"""
from __future__ import annotations

from typing import List

import safeds_stubgen.api_analyzer._get_api as G
from harness.c06 import make_visitor
from harness.zoo import Cur, rd
from safeds_stubgen.api_analyzer._mypy_helpers import mypy_expression_to_python_value, mypy_expression_to_sds_type
from safeds_stubgen.api_analyzer._types import NamedType
from vlib import shim
from vlib.gapi import INT, generate, mk_api, mk_class, mk_function, mk_module, self_param
from vlib.hsupport import THOROUGH, OutOfRange, fixed, judge, note

SEL_LEN = 14


# ------------------------------------------------------------------------------------------------------------ aliases
def _type_info(name: str, fullname: str):
    return shim.mk(shim.N.TypeInfo, name=name, fullname=fullname, bases=[])


def _callable(kind: int, cls_fullname: str):
    """kind 0: a plain function type, 1: a class object (constructor) type. Attributes as the installed mypy has them:
    `bound_args` exists only if the real CallableType has it."""
    import mypy.types as RT

    ret = shim.mk(shim.T.Instance, type=_type_info(cls_fullname.split(".")[-1], cls_fullname), args=[])
    c = shim.callable_type([], ret if kind == 1 else shim.instance("builtins.int"))
    is_type = kind == 1
    c.__dict__["is_type_obj"] = lambda: is_type
    c.__dict__["type_object"] = lambda: ret.type
    if "bound_args" in getattr(RT.CallableType, "__annotations__", {}) or hasattr(RT.CallableType, "bound_args"):
        c.__dict__["bound_args"] = [ret] if is_type else []
    return c


def aliases(sel: List[int], pkg: str, mod: str) -> bool:
    """
    pre: len(sel) == SEL_LEN and fixed(sel) and 1 <= len(pkg) <= 2 and 1 <= len(mod) <= 2
    pre: all(c in "ab" for c in pkg) and all(c in "ab" for c in mod)
    post: _
    """
    try:
        cur = Cur()
        n = 1 + (rd(sel, cur, 2) if THOROUGH else 0)
        table = {}
        for i in range(n):
            key_kind = rd(sel, cur, 4 if i == 0 else 2)  # NameExpr / MemberExpr / TypeVarExpr / another expression kind
            val_kind = rd(sel, cur, 7 if i == 0 else 3)
            node_kind = rd(sel, cur, 4) if key_kind == 0 else 0
            qual = mod + ".K" + str(i)
            value = [
                shim.mk(shim.T.Instance, type=_type_info("K" + str(i), qual), args=[]),
                _callable(0, qual), _callable(1, qual), shim.any_type(), shim.none_type(),
                shim.union([shim.instance("builtins.int"), shim.none_type()]), shim.type_var("T"),
            ][val_kind]
            if key_kind == 0:
                node = [None, shim.var("v", None, fullname=mod + ".v"),
                        shim.mk(shim.N.TypeAlias, target=shim.mk(shim.T.Instance, type=_type_info("A", mod + ".A"), args=[])),
                        shim.mk(shim.N.TypeAlias, target=shim.none_type())][node_kind]
                key = shim.name_expr("n" + str(i), mod + ".n" + str(i), node=node)
            elif key_kind == 1:
                key = shim.member_expr("attr" + str(i), shim.name_expr("o", "o"), fullname=mod + ".attr" + str(i))
            elif key_kind == 2:
                key = shim.mk(shim.N.TypeVarExpr, name="T" + str(i), fullname=mod + ".T" + str(i), _fullname=mod + ".T" + str(i))
            else:
                key = shim.int_expr(i)
            table[key] = value
    except OutOfRange:
        return True
    shim.install()
    got = G._get_aliases(table, pkg)  # any exception escaping repository code is a counterexample
    note("oracle")
    ok = isinstance(got, dict) and all(isinstance(k, str) and isinstance(v, set) for k, v in got.items())
    return judge([] if ok else ["alias-table-malformed"])


# -------------------------------------------------------------------------------------------------------- expressions
N_EXPR = 12


def expr(sel, cur, depth: int):
    k = rd(sel, cur, N_EXPR if depth > 0 else 7)
    if k == 0:
        return shim.int_expr(3), "int"
    if k == 1:
        return shim.float_expr(1.5), "float"
    if k == 2:
        return shim.str_expr("s"), "str"
    if k == 3:
        return shim.name_expr("None", "builtins.None"), "None"
    if k == 4:
        return shim.name_expr("True", "builtins.True"), "True"
    if k == 5:
        return shim.name_expr("CONST", "pkg.m.CONST"), "name"
    if k == 6:
        return shim.call_expr(), "call"
    sub, tag = expr(sel, cur, depth - 1)
    if k == 7:
        op = ["-", "+", "~", "not"][rd(sel, cur, 4)]
        return shim.unary(op, sub), f"unary({tag})"
    if k == 8:
        other, t2 = expr(sel, cur, 0)
        return shim.tuple_expr([sub, other]), f"tuple({tag},{t2})"
    if k == 9:
        return shim.list_expr([sub]), f"list({tag})"
    if k == 10:
        return shim.op_expr("+", sub, shim.int_expr(1)), f"binop({tag})"
    return shim.conditional(sub, shim.int_expr(0)), f"conditional({tag})"


def _kind(tag: str) -> str:
    return tag.split("(")[0]


def defaults(sel: List[int]) -> bool:
    """A parameter whose default value is any expression of the grammar: the parameter walk never raises.

    pre: len(sel) == SEL_LEN and fixed(sel)
    post: _
    """
    try:
        cur = Cur()
        annotated = rd(sel, cur, 2) == 1
        e, tag = expr(sel, cur, 2)
    except OutOfRange:
        return True
    shim.install()
    vis = make_visitor(False)
    arg = shim.argument("p", shim.ArgKind.ARG_OPT, annotation=shim.instance("builtins.int") if annotated else None, initializer=e)
    node = shim.func_def("f", "pkg.m.f", [arg], ret=shim.instance("builtins.int"))
    try:
        vis._parse_parameter_data(node, "pkg/m/f")
    except TypeError as ex:
        note("oracle")
        return judge([f"exc:TypeError:default-value-expression:{_kind(tag)}" if "Unexpected expression" in str(ex) else f"exc:TypeError:{ex}"])
    note("oracle")
    return True


def returns(sel: List[int]) -> bool:
    """An un-annotated function returning any expression of the grammar: result inference never raises.

    pre: len(sel) == SEL_LEN and fixed(sel)
    post: _
    """
    try:
        cur = Cur()
        e, tag = expr(sel, cur, 2)
    except OutOfRange:
        return True
    shim.install()
    vis = make_visitor(False)
    node = shim.func_def("f", "pkg.m.f", [], annotated=False, body=[shim.return_stmt(e)])
    try:
        vis._parse_results(node, "pkg/m/f", [])
    except TypeError as ex:
        note("oracle")
        inner = tag.split("(")[1].split(",")[0].rstrip(")") if "(" in tag else ""
        where = _kind(tag) if _kind(tag) in ("list", "binop") else f"{_kind(tag)}-of-{_kind(inner)}"
        return judge([f"exc:TypeError:returned-expression:{where}" if "Unexpected expression" in str(ex) else f"exc:TypeError:{ex}"])
    note("oracle")
    return True


# ---------------------------------------------------------------------------------------------------------- generator
REFS = ["ext.lib.Ext", "Ext", "ext._Hidden", "pkg.m.Local", "builtins.int", "typing.Any", "a.b.c.d.Deep"]


def generate_total(sel: List[int]) -> bool:
    """Generation and file creation never raise, whatever a type or superclass refers to.

    pre: len(sel) == SEL_LEN and fixed(sel)
    post: _
    """
    try:
        cur = Cur()
        convert = rd(sel, cur, 2) == 1
        ref = REFS[rd(sel, cur, len(REFS))]
        pos = rd(sel, cur, 3)  # reference used as parameter type / superclass / both
    except OutOfRange:
        return True
    api = mk_api()
    m = mk_module(api, "pkg/m")
    mk_class(api, m, "Local")
    t = NamedType(ref.split(".")[-1], ref)
    if pos in (0, 2):
        mk_function(api, m, "f", params=[{"name": "p", "type_": t}], results=[("result_1", INT)])
    if pos in (1, 2):
        c = mk_class(api, m, "User", supers=[ref])
        mk_function(api, c, "g", params=[self_param()], results=[("result_1", INT)])
    try:
        generate(api, convert)
    except LookupError:
        note("oracle")
        return judge(["exc:LookupError:private-superclass-of-another-library"])
    note("oracle")
    return True


def CANDIDATES(func: str):
    from harness.zoo import all_vectors

    if func == "shadowing_class_names":
        yield from _cand_shadow()
        return
    if func == "attribute_annotations":
        yield from _cand_attr()
        return

    dec = {
        "defaults": lambda s: (rd(s, c := Cur(), 2), expr(s, c, 2)),
        "returns": lambda s: expr(s, Cur(), 2),
        "generate_total": lambda s: (rd(s, c := Cur(), 2), rd(s, c, len(REFS)), rd(s, c, 3)),
    }[func]
    for vec in all_vectors(dec, SEL_LEN):
        yield [vec]


SHADOW = ["int", "str", "tuple", "list", "set", "Sequence", "Collection", "dict", "Mapping"]


def shadowing_class_names(sel: List[int]) -> bool:
    """A class of the analysed package that happens to be named like one of the built-in containers (no type arguments).

    pre: len(sel) == SEL_LEN and fixed(sel)
    post: _
    """
    try:
        name = SHADOW[rd(sel, Cur(), len(SHADOW))]
    except OutOfRange:
        return True
    shim.install()
    vis = make_visitor(False)
    inst = shim.mk(shim.T.Instance, type=shim.mk(shim.N.TypeInfo, name=name, fullname="pkg.m." + name, bases=[]), args=[])
    try:
        vis.mypy_type_to_abstract_type(inst)
    except IndexError:
        note("oracle")
        return judge(["exc:IndexError:user-class-named-dict-or-Mapping"])
    note("oracle")
    return True


def _cand_shadow():
    for i in range(len(SHADOW)):
        yield [[i] + [0] * 13]


ATTR_FORMS = ["plain", "Final[int]", "Final", "Final[int, str]", "list[int]", "list[int, str]", "set[int, str]", "list"]


def attribute_annotations(sel: List[int]) -> bool:
    """Class attributes and constructor-assigned attributes annotated with Final (with, without and with several
    arguments), list/set with several arguments, and a bare list: attribute creation never raises.

    pre: len(sel) == SEL_LEN and fixed(sel)
    post: _
    """
    try:
        cur = Cur()
        form = ATTR_FORMS[rd(sel, cur, len(ATTR_FORMS))]
        in_init = rd(sel, cur, 2) == 1
    except OutOfRange:
        return True
    shim.install()
    tree = _attr_tree_of(form, in_init)
    import safeds_stubgen.api_analyzer._ast_visitor as V
    import safeds_stubgen.api_analyzer._ast_walker as W
    from safeds_stubgen.api_analyzer import API, TypeSourcePreference, TypeSourceWarning
    from safeds_stubgen.docstring_parsing import PlaintextDocstringParser

    api = API("", "pkg", "")
    vis = V.MyPyAstVisitor(PlaintextDocstringParser(), api, {}, TypeSourcePreference.CODE, TypeSourceWarning.IGNORE)
    W.ASTWalker(vis).walk(tree)  # any exception escaping repository code is a counterexample
    note("oracle")
    return len(api.attributes_) == 1


def _attr_tree_of(form, in_init):
    i, s = shim.instance("builtins.int"), shim.instance("builtins.str")
    err = shim.any_type(shim.TypeOfAny.from_error)
    ty, un = {
        "plain": (i, shim.unbound("int")),
        "Final[int]": (i, shim.unbound("Final", [shim.unbound("int")])),
        "Final": (s, shim.unbound("Final", [])),
        "Final[int, str]": (err, shim.unbound("Final", [shim.unbound("int"), shim.unbound("str")])),
        "list[int]": (shim.instance("builtins.list", [i]), shim.unbound("list", [shim.unbound("int")])),
        "list[int, str]": (shim.instance("builtins.list", [err]), shim.unbound("list", [shim.unbound("int"), shim.unbound("str")])),
        "set[int, str]": (shim.instance("builtins.set", [err]), shim.unbound("set", [shim.unbound("int"), shim.unbound("str")])),
        "list": (shim.instance("builtins.list", [shim.any_type(shim.TypeOfAny.from_omitted_generics)]), shim.unbound("list", [])),
    }[form]
    var = shim.var("a", ty, fullname="pkg.m.K.a")
    if in_init:
        stmt = shim.assignment([shim.member_expr("a", shim.self_expr(), node=var)], unanalyzed_type=un)
        init = shim.func_def("__init__", "pkg.m.K.__init__", [shim.argument("self", shim.ArgKind.ARG_POS, is_self=True)],
                             ret=shim.none_type(), body=[stmt])
        body = [init]
    else:
        body = [shim.assignment([shim.name_expr("a", "a", node=var)], unanalyzed_type=un)]
    tree = shim.mypy_file("pkg.m", "pkg/m.py", defs=[shim.class_def("K", "pkg.m.K", body)])
    return tree


def _attr_tree(sel):
    cur = Cur()
    form = ATTR_FORMS[rd(sel, cur, len(ATTR_FORMS))]
    in_init = rd(sel, cur, 2) == 1
    return _attr_tree_of(form, in_init)


def _cand_attr():
    for a in range(len(ATTR_FORMS)):
        for b in range(2):
            yield [[a, b] + [0] * 12]


def attribute_conformance() -> dict:
    """The attribute forms above, rendered to Python and parsed by the real mypy: real nodes vs. shim conversion must
    give the same API (the builder-made nodes are compared attribute by attribute on type and flags)."""
    import json
    import shutil

    import safeds_stubgen.api_analyzer._ast_visitor as V
    import safeds_stubgen.api_analyzer._ast_walker as W
    from safeds_stubgen.api_analyzer import API, TypeSourcePreference, TypeSourceWarning
    from safeds_stubgen.docstring_parsing import PlaintextDocstringParser
    from vlib import shim_conformance as SC

    src_of = {"plain": "int = 1", "Final[int]": "Final[int] = 1", "Final": 'Final = "x"', "Final[int, str]": None,
              "list[int]": "list[int] = []", "list[int, str]": "list[int, str] = []", "set[int, str]": "set[int, str] = set()",
              "list": "list = []"}
    lines = ["from typing import Final", "", ""]
    want = {}
    for k, form in enumerate(ATTR_FORMS):
        if src_of[form] is None:
            continue
        lines += [f"class K{k}:", f"    a: {src_of[form]}", "", f"    def __init__(self) -> None:", f"        self.b: {src_of[form]}", ""]
    root = SC.write_package({"pkg/__init__.py": "", "pkg/m.py": "\n".join(lines) + "\n"})
    try:
        real, _ = SC.real_trees(root)
        real = [t for t in real if not t.path.endswith("__init__.py")]
        d_real, e_real = SC.run_visitor(real)
        shim.install()
        try:
            d_conv, e_conv = SC.run_visitor([shim.Converter().conv(t) for t in real])
        finally:
            shim.uninstall()
    finally:
        shutil.rmtree(root, ignore_errors=True)
    real_types = {a["id"]: a["type"] for a in d_real["attributes"]}
    built_types = {}
    shim.install()
    for k, form in enumerate(ATTR_FORMS):
        if src_of[form] is None:
            continue
        for in_init, nm in ((0, "a"), (1, "b")):
            # rebuild what the harness builds and read the attribute type
            sel = [k, in_init] + [0] * 12
            api = _attr_api(sel)
            built_types[f"pkg/m/K{k}/{nm}"] = next(iter(api.attributes_.values())).to_dict()["type"]
    shim.uninstall()
    diffs = [(i, real_types.get(i), built_types.get(i)) for i in sorted(built_types) if real_types.get(i) != built_types.get(i)]
    return {"attributes": len(built_types), "real_vs_converted": json.dumps(d_real, sort_keys=True, default=str) == json.dumps(d_conv, sort_keys=True, default=str),
            "real_vs_builder": not diffs, "errors": e_real + e_conv, "first_differences": diffs[:4]}


def _attr_api(sel):
    import safeds_stubgen.api_analyzer._ast_visitor as V
    import safeds_stubgen.api_analyzer._ast_walker as W
    from safeds_stubgen.api_analyzer import API, TypeSourcePreference, TypeSourceWarning
    from safeds_stubgen.docstring_parsing import PlaintextDocstringParser

    tree = _attr_tree(sel)
    api = API("", "pkg", "")
    vis = V.MyPyAstVisitor(PlaintextDocstringParser(), api, {}, TypeSourcePreference.CODE, TypeSourceWarning.IGNORE)
    W.ASTWalker(vis).walk(tree)
    return api


def attribute_conformance_job() -> dict:
    import logging
    import time

    logging.disable(logging.CRITICAL)
    t = time.time()
    r = attribute_conformance()
    ok = r["real_vs_converted"] and r["real_vs_builder"] and not r["errors"]
    return {"queries": [{"id": "attribute_forms_conformance", "verdict": "holds" if ok else "harness_error", "seconds": round(time.time() - t, 1),
                         "bound": f"{r['attributes']} attribute declarations (Final / list / set forms, class and constructor) parsed by the real mypy",
                         "detail": "" if ok else str(r)[:1200]}],
            "validation": {"samples": r["attributes"], "mismatches": 0 if ok else 1, "details": []}}
