"""C08 harnesses (Engine C): output does not depend on set iteration order (hash seed) or module processing order.

The order is an explicit permutation (vlib/permset.py): every function is run under order 0 and under order k for a
symbolic k; the results must be equal."""
from __future__ import annotations

from typing import List

import safeds_stubgen.stubs_generator._helper as HLP
from harness.c06 import make_visitor
from harness.zoo import Cur, rd
from safeds_stubgen.api_analyzer._api import QualifiedImport
from safeds_stubgen.api_analyzer._ast_visitor import MyPyAstVisitor
from safeds_stubgen.api_analyzer._api import TypeParameter, VarianceKind
from safeds_stubgen.api_analyzer._types import NamedType, TypeVarType
from vlib import shim
from vlib.gapi import INT, PA, generate, mk_api, mk_class, mk_function, mk_init_module, mk_module
from vlib.hsupport import OutOfRange, fixed, judge, note, untraced
from vlib.permset import PermSet, permuted

SEL_LEN = 12
INIT_IDS = ["pkg", "pkg/a", "pkg/b", "pkg/a/c"]


def _dec_reexport(sel):
    cur = Cur()
    chosen = [i for i in range(len(INIT_IDS)) if rd(sel, cur, 2) == 1]
    if not (2 <= len(chosen) <= 3):
        raise OutOfRange
    alias = [rd(sel, cur, 4) for _ in chosen]  # import form: by name / with alias / star import of the module / alias AND star
    return chosen, alias, 1 + rd(sel, cur, 5)


def _dec_alias(sel):
    cur = Cur()
    chosen = [q for q in ALIAS_QNAMES if rd(sel, cur, 2) == 1]
    if not (2 <= len(chosen) <= 3):
        raise OutOfRange
    return chosen, ["pkg.m", "pkg.n", "pkg.x"][rd(sel, cur, 3)], 1 + rd(sel, cur, 5)


def _dec_inferred(sel):
    cur = Cur()
    n = 2 + rd(sel, cur, 2)
    kinds = [rd(sel, cur, 5) for _ in range(n)]
    if len(set(kinds)) != len(kinds):
        raise OutOfRange
    return kinds, 1 + rd(sel, cur, 5)


def _dec_modules(sel):
    cur = Cur()
    convert = rd(sel, cur, 2) == 1
    ref_kind = rd(sel, cur, 3)  # the reference in pkg.m: fully qualified / bare / none
    second = rd(sel, cur, 3)  # pkg.n holds: class X / class XFoo / a function only
    third = rd(sel, cur, 2) == 1  # a third module pkg.u with class X
    reexport = rd(sel, cur, 2) == 1
    if ref_kind == 0 and second != 0:
        raise OutOfRange  # a fully qualified reference to a class that does not exist
    return convert, ref_kind, second, third, reexport


ALIAS_QNAMES = ["pkg.m.T", "pkg.n.T", "pkg.mm.T", "pkg.n.Other"]


def shortest_reexport(sel: List[int]) -> bool:
    """_get_shortest_public_reexport is independent of the iteration order of the re-export sets.

    pre: len(sel) == SEL_LEN and fixed(sel)
    post: _
    """
    try:
        chosen, alias, k = _dec_reexport(sel)
    except OutOfRange:
        return True

    def run(order):
        with permuted(order):
            api = mk_api()
            for j, i in enumerate(chosen):
                form = alias[j]
                imports = [] if form == 2 else [("pkg.a.c.m.X", f"Alias{j}" if form in (1, 3) else None)]
                mk_init_module(api, INIT_IDS[i], imports=imports, wildcards=["pkg.a.c.m"] if form >= 2 else [])
            return HLP._get_shortest_public_reexport(api.reexport_map, "X", "pkg.a.c.m.X", False)

    a, b = run(0), run(k)
    note("oracle")
    if a != b:
        depths = sorted(len(INIT_IDS[i].split("/")) for i in chosen)
        return judge(["order-dependent:shortest-reexport:" + ("tie-between-equally-short-packages" if depths[0] == depths[1] else "other")])
    return True


def find_alias(sel: List[int]) -> bool:
    """_find_alias is independent of the iteration order of the alias set.

    pre: len(sel) == SEL_LEN and fixed(sel)
    post: _
    """
    try:
        chosen, current, k = _dec_alias(sel)
    except OutOfRange:
        return True

    def run(order):
        with permuted(order):
            shim.install()
            vis = make_visitor(False)
            vis.mypy_file = shim.mypy_file(current, current.replace(".", "/") + ".py")
            vis.aliases = {"T": PermSet(chosen)}
            name, qname = vis._find_alias("T")
            return (name, qname) if qname else ("", "")  # callers ignore the name when no qualified name was found

    a, b = run(0), run(k)
    note("oracle")
    if a != b:
        paths = [".".join(q.split(".")[:-1]) for q in chosen]
        hits = [p for p in paths if p == current or p.startswith(current + ".")]
        loose = [p for p in paths if current in p]
        cause = ("several-candidates-in-current-module" if len(hits) > 1 else
                 "several-candidates-match-as-substring" if len(loose) > 1 else
                 "no-candidate-in-current-module" if not hits else "other")
        return judge([f"order-dependent:find-alias:{cause}"])
    return True


def inferred_types(sel: List[int]) -> bool:
    """The inferred result of an un-annotated function is independent of the iteration order of the set of return types.

    pre: len(sel) == SEL_LEN and fixed(sel)
    post: _
    """
    try:
        kinds, k = _dec_inferred(sel)
    except OutOfRange:
        return True
    exprs = lambda: [[shim.int_expr(1), shim.str_expr("s"), shim.tuple_expr([shim.int_expr(1), shim.str_expr("s")]),  # noqa: E731
                      shim.tuple_expr([shim.float_expr(1.5), shim.name_expr("True", "builtins.True")]), shim.tuple_expr([shim.float_expr(1.5)])][i] for i in kinds]

    def run(order):
        with permuted(order):
            shim.install()
            vis = make_visitor(False)
            node = shim.func_def("f", "pkg.m.f", [], annotated=False, body=[shim.if_stmt([[shim.return_stmt(e)]]) for e in exprs()])
            return [r.to_dict() for r in vis._parse_results(node, "pkg/m/f", [])]

    a, b = run(0), run(k)
    note("oracle")
    if a != b:
        same_len = 2 in kinds and 3 in kinds
        return judge(["order-dependent:inferred-results:" + ("two-tuples-of-equal-length" if same_len else "other")])
    return True


def module_order(sel: List[int]) -> bool:
    """The complete output (every path and text) does not depend on the order in which modules were analysed.

    pre: len(sel) == SEL_LEN and fixed(sel)
    post: _
    """
    try:
        convert, ref_kind, second, third, reexport = _dec_modules(sel)
    except OutOfRange:
        return True

    def build(order):
        api = mk_api()
        if reexport:
            mk_init_module(api, "pkg", imports=[("pkg.n.X", None)])
        names = ["pkg/m", "pkg/n"] + (["pkg/u"] if third else [])
        mods = {}
        for mid in (names if order == 0 else list(reversed(names))):
            m = mk_module(api, mid)
            mods[mid] = m
            if mid == "pkg/m":
                t = [NamedType("X", "pkg.n.X"), NamedType("X", "X"), INT][ref_kind]
                mk_function(api, m, "f", params=[{"name": "p", "type_": t}], results=[("result_1", INT)])
                # a non-generic class with a method that has its own type variable T
                tv = TypeVarType("T", None)
                k = mk_class(api, m, "Plain")
                mk_function(api, k, "tag", params=[{"name": "self", "kind": PA.IMPLICIT}, {"name": "label", "type_": tv}],
                            results=[("result_1", tv)], type_vars=[tv])
            elif mid == "pkg/n":
                if second == 2:
                    mk_function(api, m, "g", results=[("result_1", INT)])
                else:
                    # the class of pkg.n is generic in T (type parameter shown in the class header)
                    mk_class(api, m, ["X", "XFoo"][second], type_parameters=[TypeParameter("T", None, VarianceKind.INVARIANT)])
            else:
                mk_class(api, m, "X")
        return api

    fa, _, _ = generate(build(0), convert)
    files_a = dict(fa.files)
    fb, _, _ = generate(build(1), convert)
    files_b = dict(fb.files)
    note("oracle")
    if files_a != files_b:
        cause = "ambiguous-bare-reference" if ref_kind == 1 else "other"
        return judge([f"order-dependent:module-order:{cause}"])
    return True


INIT_DIRS = ["a", "b/x", "c/y/z", "d", "e/v", "f/u/w"]  # directories (relative to the source directory) that hold an __init__.py
_PERMS4 = None


def _perm(n: int, idx: int):
    import itertools

    return list(itertools.islice(itertools.permutations(range(n)), idx, idx + 1))[0]


def nearest_packages(sel: List[int]) -> bool:
    """_get_nearest_init_dirs (the choice of the directory that is analysed when the source directory is no package
    itself) does not depend on the order in which the file system lists the __init__.py files: for every set of up to
    four package directories at depths 1-3 and every enumeration order the result is the set of the shallowest ones.

    pre: len(sel) == SEL_LEN and fixed(sel)
    post: _
    """
    import math
    from pathlib import PurePosixPath

    import safeds_stubgen.api_analyzer._get_api as GA

    try:
        cur = Cur()
        n = 1 + rd(sel, cur, 4)
        chosen = []
        for _ in range(n):
            d = INIT_DIRS[rd(sel, cur, len(INIT_DIRS))]
            if d in chosen:
                raise OutOfRange
            chosen.append(d)
        if chosen != sorted(chosen):
            raise OutOfRange  # the set is what matters; its order is the permutation below
        order = _perm(n, rd(sel, cur, math.factorial(n)))
    except OutOfRange:
        return True
    inits = [PurePosixPath("/src") / chosen[i] / "__init__.py" for i in order]

    class Root:
        def glob(self, pattern):
            assert pattern == "./**/__init__.py", pattern
            return iter(inits)

    got = GA._get_nearest_init_dirs(Root())
    note("oracle")
    with untraced():
        depth = min(len(d.split("/")) for d in chosen)
        want = sorted(str(PurePosixPath("/src") / d) for d in chosen if len(d.split("/")) == depth)
        labels = []
        if sorted(str(g) for g in got) != want:
            labels.append("nearest-package-directories-depend-on-enumeration-order" if set(map(str, got)) != set(want)
                          else "nearest-package-directory-listed-twice")
    return judge(labels)


def CANDIDATES(func: str):
    from harness.zoo import all_vectors

    dec = {"shortest_reexport": _dec_reexport, "find_alias": _dec_alias, "inferred_types": _dec_inferred, "module_order": _dec_modules}[func]
    for vec in all_vectors(dec, SEL_LEN):
        yield [vec]
