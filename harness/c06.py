"""C06 harnesses (Engine C): parameter lists are reproduced exactly.

analyser  - the real MyPyAstVisitor._parse_parameter_data on shim FuncDef nodes (signature grammar below), integer
            default symbolic; compared with a reference restating the Python signature.
render    - the real _create_parameter_string on API parameters with a symbolic integer default, compared by string
            equality with a reference rendering (the value stays symbolic to the end of the path).
rendered_list - the recogniser's parameter list equals the model's list minus the receiver (shape selectors).
"""
from __future__ import annotations

from typing import List

import safeds_stubgen.stubs_generator._stub_string_generator as SG
from harness.zoo import Cur, rd
from oracle.recogniser import StubSyntaxError, parse_decl
from safeds_stubgen.api_analyzer import API, TypeSourcePreference, TypeSourceWarning
from safeds_stubgen.api_analyzer._api import Class, Module, UnknownValue
from safeds_stubgen.api_analyzer._ast_visitor import MyPyAstVisitor
from safeds_stubgen.api_analyzer._types import NamedType
from safeds_stubgen.docstring_parsing import ClassDocstring, PlaintextDocstringParser
from vlib import shim
from vlib.gapi import INT, PA, STR, mk_api, mk_class, mk_function, mk_module
from vlib.hsupport import THOROUGH, OutOfRange, fixed, judge, note, untraced

SEL_LEN = 12
AK = shim.ArgKind
# signature grammar: parameter kinds in the only order Python allows
KINDS = ["pos_only", "pos_or_kw", "var_pos", "kw_only", "var_kw"]
DEFAULTS = ["none", "int", "neg_int", "float", "str", "None", "True", "False", "name", "call"]
MAXP = 3 if THOROUGH else 2


def decode_signature(sel, cur):
    """-> (context, [(name, kind, annotated, default_kind)]) ; context: 0 function, 1 instance method, 2 class method,
    3 static method, 4 constructor. Only signatures Python accepts are generated."""
    ctx = rd(sel, cur, 5)
    n = rd(sel, cur, MAXP + 1)
    params = []
    min_kind = 0
    need_default = False
    for i in range(n):
        k = min_kind + rd(sel, cur, len(KINDS) - min_kind)
        kind = KINDS[k]
        annotated = rd(sel, cur, 2) == 1
        if kind in ("var_pos", "var_kw"):
            d = "none"
        else:
            # every default kind for the first parameter; for the others in the thorough tier up to 2 parameters
            # (3 parameters with 10 default kinds each are 80 000 signatures per context and harness: hours)
            d = DEFAULTS[rd(sel, cur, len(DEFAULTS) if (i == 0 or (THOROUGH and n <= 2)) else 3)]
        if kind in ("pos_only", "pos_or_kw"):
            if need_default and d == "none":
                raise OutOfRange  # non-default argument follows default argument
            need_default = need_default or d != "none"
        params.append((f"p{i}", kind, annotated, d))
        min_kind = k + 1 if kind in ("var_pos", "var_kw") else k
        if kind == "var_pos":
            min_kind = 3
        if min_kind >= len(KINDS):
            if i + 1 < n:
                raise OutOfRange
    return ctx, params


def build_funcdef(ctx, params, v: int):
    args = []
    # mypy marks every argument in front of '/' as position-only - the receiver included
    recv_pos_only = any(k == "pos_only" for _, k, _, _ in params)
    if ctx in (1, 4):
        args.append(shim.argument("self", AK.ARG_POS, is_self=True, pos_only=recv_pos_only))
    elif ctx == 2:
        args.append(shim.argument("cls", AK.ARG_POS, is_cls=True, pos_only=recv_pos_only))
    for name, kind, annotated, d in params:
        init = {
            "none": None, "int": shim.int_expr(v), "neg_int": shim.unary("-", shim.int_expr(v)),
            "float": shim.float_expr(1.5), "str": shim.str_expr("s"), "None": shim.name_expr("None", "builtins.None"),
            "True": shim.name_expr("True", "builtins.True"), "False": shim.name_expr("False", "builtins.False"),
            "name": shim.name_expr("CONST", "pkg.m.CONST"), "call": shim.call_expr(),
        }[d]
        has_d = init is not None
        ak = {"pos_only": AK.ARG_OPT if has_d else AK.ARG_POS, "pos_or_kw": AK.ARG_OPT if has_d else AK.ARG_POS,
              "var_pos": AK.ARG_STAR, "kw_only": AK.ARG_NAMED_OPT if has_d else AK.ARG_NAMED, "var_kw": AK.ARG_STAR2}[kind]
        ann = shim.instance("builtins.int") if annotated else None
        args.append(shim.argument(name, ak, annotation=ann, initializer=init, pos_only=kind == "pos_only"))
    fname = "__init__" if ctx == 4 else "f"
    owner = "pkg.m.K." if ctx else "pkg.m."
    return shim.func_def(fname, owner + fname, args, ret=shim.none_type() if ctx == 4 else shim.instance("builtins.int"),
                         is_static=ctx == 3, is_class=ctx == 2)


def render_signature(fname, ctx, params, v: int) -> str:
    """Python source of the same signature (for conformance runs against the real mypy)."""
    parts = []
    recv = {1: "self", 4: "self", 2: "cls"}.get(ctx)
    if recv:
        parts.append(recv)
    last_pos_only = max([i for i, p in enumerate(params) if p[1] == "pos_only"], default=-1)
    star_done = False
    for i, (name, kind, annotated, d) in enumerate(params):
        txt = {"var_pos": "*", "var_kw": "**"}.get(kind, "") + name + (": int" if annotated else "")
        dv = {"none": None, "int": str(v), "neg_int": f"-{v}", "float": "1.5", "str": '"s"', "None": "None", "True": "True",
              "False": "False", "name": "CONST", "call": "g()"}[d]
        if dv is not None:
            txt += (" = " if annotated else "=") + dv
        if kind == "kw_only" and not star_done and not any(p[1] == "var_pos" for p in params[:i]):
            parts.append("*")
        if kind in ("kw_only", "var_pos"):
            star_done = True
        parts.append(txt)
        if i == last_pos_only:
            parts.append("/")
    deco = {2: "    @classmethod\n", 3: "    @staticmethod\n"}.get(ctx, "")
    ind = "    " if ctx else ""
    ret = " -> None" if ctx == 4 else " -> int"
    name = "__init__" if ctx == 4 else fname
    return f"{deco}{ind}def {name}({', '.join(parts)}){ret}: ...\n"


def make_visitor(in_class: bool):
    api = API("", "pkg", "")
    vis = MyPyAstVisitor(PlaintextDocstringParser(), api, {}, TypeSourcePreference.CODE, TypeSourceWarning.IGNORE)
    stack = [Module(id_="pkg/m", name="m")]
    if in_class:
        stack.append(Class(id="pkg/m/K", name="K", superclasses=[], is_public=True, docstring=ClassDocstring()))
    vis._MyPyAstVisitor__declaration_stack.extend(stack)
    vis.mypy_file = shim.mypy_file("pkg.m", "pkg/m.py")
    return vis


REF_KIND = {"pos_only": PA.POSITION_ONLY, "pos_or_kw": PA.POSITION_OR_NAME, "var_pos": PA.POSITIONAL_VARARG,
            "kw_only": PA.NAME_ONLY, "var_kw": PA.NAMED_VARARG}
LITERAL = {"int", "neg_int", "float", "str", "None", "True", "False"}


def analyser(sel: List[int]) -> bool:
    """
    pre: len(sel) == SEL_LEN and fixed(sel)
    post: _
    """
    try:
        ctx, params = decode_signature(sel, Cur())
    except OutOfRange:
        return True
    return _analyse(ctx, params, 7)


def analyser_value(neg: bool, annotated: bool, v: int) -> bool:
    """The integer default as a SYMBOLIC value through IntExpr / UnaryExpr('-') -> int(f"-{v}") -> Parameter.

    pre: 0 <= v < 100
    post: _
    """
    return _analyse(0, [("p0", "pos_or_kw", annotated, "neg_int" if neg else "int")], v)


def _analyse(ctx, params, v) -> bool:
    shim.install()
    node = build_funcdef(ctx, params, v)
    vis = make_visitor(ctx != 0)
    got = vis._parse_parameter_data(node, "pkg/m/f")
    note("oracle")
    labels = []
    want = []
    if ctx in (1, 2, 4):
        want.append(("self" if ctx != 2 else "cls", PA.IMPLICIT, False, None))
    for name, kind, annotated, d in params:
        value = {"int": v, "neg_int": -v, "float": 1.5, "str": '"s"', "None": None, "True": True, "False": False}.get(d)
        want.append((name, REF_KIND[kind], d in LITERAL, value))
    if len(got) != len(want):
        return judge(["parameter-count-differs"])
    for p, (name, kind, optional, value) in zip(got, want):
        if p.name != name:
            labels.append("parameter-name-or-order-differs")
        if p.assigned_by != kind:
            labels.append(f"passing-kind-differs:{kind.name}")
        if p.is_optional != optional:
            labels.append("optional-iff-literal-default")
        if optional and (p.default_value != value or type(p.default_value) is not type(value)):
            labels.append("default-value-differs")
        if not optional and p.default_value is not None:
            labels.append("default-value-without-literal-default")
    return judge(labels)


# ------------------------------------------------------------------------------------------------------ generator side
def _ref_default(dk: str, v: int) -> str:
    return {"none": "", "int": f" = {v}", "neg_int": f" = {-v}", "float": " = 1.5", "str": ' = "s"', "None": " = null",
            "True": " = true", "False": " = false", "unknown": " = unknown"}[dk]


GEN_DEFAULTS = ["none", "int", "neg_int", "float", "str", "None", "True", "False", "unknown"]


def render(sel: List[int]) -> bool:
    """One parameter through the real _create_parameter_string; the expected text is built by the reference and
    compared by string equality.

    pre: len(sel) == SEL_LEN and fixed(sel)
    post: _
    """
    try:
        cur = Cur()
        kind = KINDS[rd(sel, cur, len(KINDS))]
        dk = GEN_DEFAULTS[rd(sel, cur, len(GEN_DEFAULTS))] if kind not in ("var_pos", "var_kw") else "none"
        is_method = rd(sel, cur, 2) == 1
    except OutOfRange:
        return True
    return _render(kind, dk, is_method, 7)


def render_value(v: int) -> bool:
    """The integer default as a SYMBOLIC value through f"{param_default_value}" (string equality with the reference).

    pre: -99 <= v <= 99
    post: _
    """
    return _render("pos_or_kw", "int", False, v)


def _render(kind, dk, is_method, v) -> bool:
    value = {"int": v, "neg_int": -v, "float": 1.5, "str": '"s"', "None": None, "True": True, "False": False,
             "unknown": UnknownValue()}.get(dk)
    api = mk_api()
    m = mk_module(api, "pkg/m")
    owner = mk_class(api, m, "K") if is_method else m
    params = ([{"name": "self", "kind": PA.IMPLICIT}] if is_method else []) + [
        {"name": "p", "type_": INT, "kind": REF_KIND[kind], "optional": dk != "none", "default": value}]
    f = mk_function(api, owner, "f", params=params, results=[("result_1", INT)])
    gen = SG.StubsStringGenerator(api=api, convert_identifiers=False)
    gen(Module(id_="pkg/m", name="m"))
    got = gen._create_parameter_string(f.parameters, "", is_instance_method=is_method)
    note("oracle")
    want = f"\n    p: Int{_ref_default(dk, v)}\n"
    if kind == "var_pos":
        want = "\n    p: Int\n"
    return judge([] if got == want else [f"default-rendering:{dk}"])


def rendered_list(sel: List[int]) -> bool:
    """
    pre: len(sel) == SEL_LEN and fixed(sel)
    post: _
    """
    try:
        ctx, params = decode_signature(sel, Cur())
    except OutOfRange:
        return True
    api = mk_api()
    m = mk_module(api, "pkg/m")
    owner = mk_class(api, m, "K") if ctx else m
    plist = []
    if ctx in (1, 4):
        plist.append({"name": "self", "kind": PA.IMPLICIT})
    elif ctx == 2:
        plist.append({"name": "cls", "kind": PA.IMPLICIT})
    for name, kind, annotated, d in params:
        lit = d in LITERAL
        value = {"int": 7, "neg_int": -7, "float": 1.5, "str": '"s"', "None": None, "True": True, "False": False}.get(d)
        # model invariant of the analyser: a literal default implies a type
        plist.append({"name": name, "type_": INT if (annotated or lit) else None, "kind": REF_KIND[kind], "optional": lit,
                      "default": value})
    fname = "__init__" if ctx == 4 else "f"
    f = mk_function(api, owner, fname, params=plist, results=[] if ctx == 4 else [("result_1", INT)],
                    static=ctx == 3, class_method=ctx == 2)
    gen = SG.StubsStringGenerator(api=api, convert_identifiers=False)
    gen(Module(id_="pkg/m", name="m"))
    gen._set_module_id("pkg/m")
    if ctx == 4:
        text = gen._create_class_string(owner)
    else:
        text = gen._create_function_string(f, is_method=ctx != 0)
    note("oracle")
    labels = []
    with untraced():
        try:
            d = parse_decl(text)
        except StubSyntaxError as e:
            return judge([f"stub-syntax:{e.msg.split(';')[0]}"])
        got = d.params or []
        want = [p for p in plist if p["kind"] != PA.IMPLICIT]
        if [p.pyname for p in got] != [p["name"] for p in want]:
            labels.append("parameter-list-differs")
        else:
            for g, w in zip(got, want):
                ref = {7: "7", -7: "-7", 1.5: "1.5", '"s"': '"s"', None: "null"}.get(w["default"]) if not isinstance(w["default"], bool) else ("true" if w["default"] else "false")
                if (g.default is not None) != w["optional"]:
                    labels.append("optional-iff-default-shown")
                elif w["optional"] and g.default != ref:
                    labels.append("default-literal-differs")
    return judge(labels)


# ----------------------------------------------------------------------------------------------------------- conformance
def conformance(limit: int = 400) -> dict:
    """Builder vs real mypy: every signature of the grammar (integer default 7) is rendered into one module, parsed by
    the real mypy, and the real visitor's parameters on real nodes must equal those on builder-made shim nodes."""
    from harness.zoo import all_vectors
    from vlib import shim_conformance as SC


    vecs = []
    for ctx in range(5):  # the same share of the sample for every context (the enumeration is depth-first)
        def dec(s, ctx=ctx):
            if rd(s, Cur(), 5) != ctx:
                raise OutOfRange
            return decode_signature(s, Cur())

        part = list(all_vectors(dec, SEL_LEN, limit=limit * 10))
        step = max(1, len(part) // max(1, limit // 5))
        vecs += part[::step]
    fun_src, cls_src, built_funcs, built_methods = [], [], [], []
    for i, vec in enumerate(vecs):
        ctx, params = decode_signature(list(vec), Cur())
        if ctx == 4:
            continue  # one __init__ per class: covered by the method contexts
        name = f"f{i}"
        src = render_signature(name, ctx, params, 7)
        node = build_funcdef(ctx, params, 7)
        node.__dict__["name"] = name
        node.__dict__["fullname"] = ("pkg.m.K." if ctx else "pkg.m.") + name
        node.__dict__["_fullname"] = node.fullname
        if ctx:
            cls_src.append(src)
            built_methods.append(shim.decorator(node) if ctx in (2, 3) else node)
        else:
            fun_src.append(src)
            built_funcs.append(node)
    source = "CONST = 3\n\n\ndef g() -> int: ...\n\n\n" + "\n".join(fun_src) + "\n\nclass K:\n" + ("".join(cls_src) or "    pass\n")
    g = shim.func_def("g", "pkg.m.g", [], ret=shim.instance("builtins.int"))
    const = shim.assignment([shim.name_expr("CONST", "pkg.m.CONST")])
    tree = shim.mypy_file("pkg.m", "pkg/m.py", defs=[const, g, *built_funcs, shim.class_def("K", "pkg.m.K", built_methods)])

    def pick(d):
        return {"parameters": d["parameters"], "functions": [{k: f[k] for k in ("id", "parameters", "is_static", "is_class_method")}
                                                             for f in d["functions"]]}

    r = SC.check_builder({"pkg/__init__.py": "", "pkg/m.py": source}, [tree], pick=pick)
    out = {"signatures": len(vecs), "real_vs_converted": r["real_vs_converted"], "real_vs_builder": r["real_vs_builder"],
           "errors": r["errors_real"] + r["errors_builder"]}
    if not r["real_vs_builder"]:
        rp = {p["id"]: p for p in r["real"]["parameters"]}
        bp = {p["id"]: p for p in r["built"]["parameters"]}
        diffs = [(k, rp.get(k), bp.get(k)) for k in sorted(set(rp) | set(bp)) if rp.get(k) != bp.get(k)]
        out["first_differences"] = diffs[:3]
        out["source_excerpt"] = source[:600]
    return out


def CANDIDATES(func: str):
    from harness.zoo import all_vectors

    if func == "render":
        import itertools

        for sel in itertools.product(range(5), range(len(GEN_DEFAULTS)), range(2)):
            yield [list(sel) + [0] * 9]
    else:
        for vec in all_vectors(lambda s: decode_signature(s, Cur()), SEL_LEN):
            yield [vec]


if __name__ == "__main__":
    import json

    print(json.dumps(conformance(), indent=1, default=str)[:3000])


def conformance_job() -> dict:
    """Run as an Engine-K style job (one 'query'): the shim builders agree with the real mypy."""
    import logging
    import time

    logging.disable(logging.CRITICAL)
    t = time.time()
    r = conformance()
    ok = r["real_vs_converted"] and r["real_vs_builder"] and not r["errors"]
    return {"queries": [{"id": "shim_conformance", "verdict": "holds" if ok else "harness_error", "seconds": round(time.time() - t, 1),
                         "bound": f"{r['signatures']} signatures rendered to Python and parsed by the real mypy",
                         "detail": "" if ok else str(r)[:1500]}],
            "validation": {"samples": r["signatures"], "mismatches": 0 if ok else 1, "details": []}}
