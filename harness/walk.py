"""Walker/visitor harnesses on G_ast (Engine C on the mypy shim): used by C01 (no exception), C03 (every declaration
registered exactly once with its owner) and C12 (the API inventory is complete and internally consistent)."""
from __future__ import annotations

import json
from typing import List

import safeds_stubgen.api_analyzer._ast_visitor as V
import safeds_stubgen.api_analyzer._ast_walker as W
from harness.gast import decode_module
from harness.zoo import Cur
from safeds_stubgen.api_analyzer import API, TypeSourcePreference, TypeSourceWarning
from safeds_stubgen.docstring_parsing import PlaintextDocstringParser
from vlib import shim
from vlib.hsupport import OutOfRange, fixed, judge, note, untraced

SEL_LEN = 24
LISTS = {"class": "classes", "function": "functions", "method": "functions", "constructor": "functions", "enum": "enums",
         "enum_instance": "enum_instances", "attribute": "attributes"}


def analyse(sel):
    b = decode_module(sel, Cur())
    shim.install()
    api = API("", "pkg", "")
    vis = V.MyPyAstVisitor(PlaintextDocstringParser(), api, {}, TypeSourcePreference.CODE, TypeSourceWarning.IGNORE)
    W.ASTWalker(vis).walk(b.tree)
    return b, api


def inventory_labels(b, api) -> list[str]:
    labels = []
    d = api.to_dict()
    try:
        json.dumps(d)
    except (TypeError, ValueError):
        labels.append("c12:not-json-serialisable")
    if d.get("schemaVersion") != 1:
        labels.append("c12:schema-version")
    ids = {}
    for key in ("modules", "classes", "functions", "results", "enums", "enum_instances", "attributes", "parameters"):
        lst = [x["id"] for x in d[key]]
        if lst != sorted(lst):
            labels.append(f"c12:list-not-sorted:{key}")
        if len(set(lst)) != len(lst):
            labels.append(f"c12:duplicate-ids:{key}")
        ids[key] = set(lst)
    # expected declarations: registered exactly once, with the right owner and flags
    for e in b.expect:
        key = LISTS[e["kind"]]
        n = [x["id"] for x in d[key]].count(e["id"])
        tag = e.get("construct", e["kind"])
        if n == 0:
            labels.append(f"c03:declaration-not-registered:{tag}")
            continue
        entry = next(x for x in d[key] if x["id"] == e["id"])
        if entry.get("name") != e["name"] or e["id"] != f"{e['owner']}/{e['name']}":
            labels.append(f"c12:id-not-owner-slash-name:{tag}")
        if e["kind"] == "method":
            if (entry["is_static"], entry["is_class_method"], entry["is_property"]) != (e["static"], e["class_method"], e["property"]):
                labels.append(f"c12:method-flags-differ:{tag}")
        if e["kind"] == "attribute" and entry["is_static"] != e["static"]:
            labels.append("c12:attribute-static-flag-differs")
        if e["kind"] == "class" and "superclasses" in e:
            if entry["superclasses"] != e["superclasses"]:
                labels.append("c12:superclass-list-differs" + (f":{e['construct']}" if e.get("construct") else ""))
            if entry["inherits_from_exception"] != e["exception"]:
                labels.append("c12:exception-flag-differs")
    # referential integrity: every referenced id resolves; every non-module entry has exactly one owner reference
    refs: dict[str, int] = {}

    def ref(key, i, what):
        if i not in ids[key]:
            labels.append(f"c12:dangling-reference:{what}")
        refs[i] = refs.get(i, 0) + 1

    for m in d["modules"]:
        for i in m["classes"]:
            ref("classes", i, "module.classes")
        for i in m["functions"]:
            ref("functions", i, "module.functions")
        for i in m["enums"]:
            ref("enums", i, "module.enums")
    for c in d["classes"]:
        for i in c["attributes"]:
            ref("attributes", i, "class.attributes")
        for i in c["methods"]:
            ref("functions", i, "class.methods")
        for i in c["classes"]:
            ref("classes", i, "class.classes")
        if c["constructor"] is not None:
            refs[c["constructor"]["id"]] = refs.get(c["constructor"]["id"], 0) + 1
    for f in d["functions"]:
        for i in f["parameters"]:
            ref("parameters", i, "function.parameters")
        for i in f["results"]:
            ref("results", i, "function.results")
    for e in d["enums"]:
        for i in e["instances"]:
            ref("enum_instances", i, "enum.instances")
    construct = {e["id"]: e.get("construct", "") for e in b.expect}
    for key in ("classes", "functions", "results", "enums", "enum_instances", "attributes", "parameters"):
        for i in ids[key]:
            if refs.get(i, 0) != 1:
                labels.append(f"c12:not-referenced-by-exactly-one-owner:{key}" + (f":{construct[i]}" if construct.get(i) else ""))
    # nothing registered that the source does not contain
    want = {e["id"] for e in b.expect}
    for key in ("classes", "functions", "enums", "enum_instances", "attributes"):
        for i in ids[key]:
            if i not in want:
                labels.append(f"c03:unexpected-declaration:{key}")
    return labels


def run(sel, prefixes) -> bool:
    try:
        b = decode_module(sel, Cur())
    except OutOfRange:
        return True
    shim.install()
    api = API("", "pkg", "")
    vis = V.MyPyAstVisitor(PlaintextDocstringParser(), api, {}, TypeSourcePreference.CODE, TypeSourceWarning.IGNORE)
    W.ASTWalker(vis).walk(b.tree)  # any exception escaping repository code is a counterexample
    note("oracle")
    with untraced():
        labels = inventory_labels(b, api)
    return judge([l for l in labels if l.startswith(prefixes)])


def no_exception(sel: List[int]) -> bool:
    """
    pre: len(sel) == SEL_LEN and fixed(sel)
    post: _
    """
    return run(sel, ("exc:",))


def registered_once(sel: List[int]) -> bool:
    """
    pre: len(sel) == SEL_LEN and fixed(sel)
    post: _
    """
    return run(sel, ("c03:",))


def inventory(sel: List[int]) -> bool:
    """
    pre: len(sel) == SEL_LEN and fixed(sel)
    post: _
    """
    return run(sel, ("c12:", "c03:declaration-not-registered"))  # completeness of the inventory is part of C12 as well


def CANDIDATES(func: str):
    from harness.zoo import all_vectors

    for vec in all_vectors(lambda s: decode_module(s, Cur()), SEL_LEN):
        yield [vec]


def conformance_job() -> dict:
    import logging
    import time

    from harness.gast import conformance

    logging.disable(logging.CRITICAL)
    t = time.time()
    r = conformance(300)
    ok = r["real_vs_converted"] and r["real_vs_builder"]
    return {"queries": [{"id": "shim_conformance", "verdict": "holds" if ok else "harness_error", "seconds": round(time.time() - t, 1),
                         "bound": f"{r['modules']} module trees rendered to Python and parsed by the real mypy; real vs converted vs builder-made trees give the same API and the same errors",
                         "detail": "" if ok else str(r)[:1500]}],
            "validation": {"samples": r["modules"], "mismatches": 0 if ok else 1, "details": []}}
