"""C03/C04 harness (Engine C): every public declaration appears exactly once; private ones never appear."""
from __future__ import annotations

from typing import List

from harness.zoo import Cur, rd
from oracle.recogniser import StubSyntaxError, parse
from safeds_stubgen.api_analyzer._types import TypeVarType
from vlib.gapi import INT, STR, generate, mk_api, mk_attr, mk_class, mk_enum, mk_function, mk_init_module, mk_module, self_param
from vlib.hsupport import THOROUGH, OutOfRange, fixed, judge, note, untraced

SEL_LEN = 16


def build(sel: List[int], cur: Cur):
    """-> (api, expected, forbidden): expected = {(python module path, owner path, python name, kind)} of declarations
    whose publicity chain is true; forbidden = the same for declarations with a false chain."""
    api = mk_api()
    deep = rd(sel, cur, 2) == 1  # module pkg/m or pkg/deep/m
    reexport = rd(sel, cur, 3)  # 0 none, 1 pkg/__init__ imports f and C by name, 2 with alias
    mid = "pkg/deep/m" if deep else "pkg/m"
    mq = mid.replace("/", ".")
    pf = rd(sel, cur, 2) == 1
    pc = rd(sel, cur, 2) == 1
    if reexport:
        alias = reexport == 2
        mk_init_module(api, "pkg", imports=[(f"{mq}.f", "fz" if alias else None), (f"{mq}.C", "Cz" if alias else None)])
    m = mk_module(api, mid)
    expected, forbidden = set(), set()

    def put(ok, pymod, owner, name, kind):
        (expected if ok else forbidden).add((pymod, owner, name, kind))

    # a re-exported declaration lives in the re-exporting package under the name it is re-exported as
    f_home = ("pkg", "fz" if reexport == 2 else "f") if reexport else (mq, "f")
    c_home = ("pkg", "Cz" if reexport == 2 else "C") if reexport else (mq, "C")
    mk_function(api, m, "f", params=[{"name": "p", "type_": INT}], results=[("result_1", INT)], public=pf)
    put(pf, f_home[0], "", f_home[1], "fun")
    exc = rd(sel, cur, 2) == 1
    c = mk_class(api, m, "C", public=pc, exception=exc, supers=["builtins.ValueError"] if exc else [])
    why_c = "exception-class" if exc else ""
    put(pc, c_home[0], "", c_home[1], "class" + (":" + why_c if why_c else ""))
    cname = c_home[1]
    if THOROUGH:
        pa, sa = rd(sel, cur, 2) == 1, rd(sel, cur, 2) == 1
        ta = rd(sel, cur, 3)  # attribute type: int / none / type variable
    else:
        pa, sa, ta = [(True, True, 0), (True, False, 1), (False, True, 0), (True, True, 2)][rd(sel, cur, 4)]
    mk_attr(api, c, "a", [INT, None, TypeVarType("T")][ta], public=pa, static=sa)
    vis = pc and not exc  # members of an omitted class are not reported separately (one label at the class)
    put(pa and vis, c_home[0], cname, "a", "attr" + (":typevar-typed" if ta == 2 else "")) if (vis or not pa or not pc) else None
    if THOROUGH:
        pg = rd(sel, cur, 2) == 1
        kg = rd(sel, cur, 3)  # instance method / static method / property
    else:
        pg, kg = [(True, 0), (True, 1), (True, 2), (False, 0)][rd(sel, cur, 4)]
    mk_function(api, c, "g", params=[] if kg == 1 else [self_param()], results=[("result_1", STR)], public=pg,
                static=kg == 1, prop=kg == 2)
    put(pg and vis, c_home[0], cname, "g", "attr" if kg == 2 else "fun") if (vis or not pg or not pc) else None
    if (rd(sel, cur, 2) == 1) if THOROUGH else pc:
        mk_function(api, c, "__init__", params=[self_param(), {"name": "q", "type_": INT}], public=pc)
    pi = rd(sel, cur, 2) == 1
    inner = mk_class(api, c, "I", public=pi)
    put(pi and vis, c_home[0], cname, "I", "class") if (vis or not pi or not pc) else None
    mk_function(api, inner, "h", params=[self_param()], results=[("result_1", INT)], public=pi)
    put(pi and vis, c_home[0], f"{cname}/I", "h", "fun") if (vis or not pi or not pc) else None
    pe = rd(sel, cur, 2) == 1
    ename = "E" if pe else "_E"
    mk_enum(api, m, ename, ["X", "Y"])
    put(pe, mq, "", ename, "enum")
    if pe:
        put(True, mq, ename, "X", "variant")
        put(True, mq, ename, "Y", "variant")
    return api, expected, forbidden


def _emitted(fs):
    out = []
    for path, text in fs.files.items():
        f = parse(text)
        for owner, d in f.all_decls():
            out.append((f.pymodule, owner, d.pyname, d.kind))
    return out


def declarations(sel: List[int], which: int) -> bool:
    try:
        cur = Cur()
        convert = rd(sel, cur, 2) == 1
        api, expected, forbidden = build(sel, cur)
    except OutOfRange:
        return True
    fs, _, _ = generate(api, convert)
    note("oracle")
    labels = []
    with untraced():
        try:
            got = _emitted(fs)
        except StubSyntaxError as e:
            return judge([f"stub-syntax:{e.msg.split(';')[0]}"])
        plain = lambda t: (t[0], t[1], t[2], t[3].split(":")[0])  # noqa: E731
        want = {plain(t): t for t in expected}
        for t in want:
            n = got.count(t)
            tag = ":".join(want[t][3].split(":")[1:]) or "plain"
            if n == 0 and which == 3:
                labels.append(f"missing:{t[3]}:{tag}")
            elif n > 1 and which == 3:
                labels.append(f"duplicate:{t[3]}:{tag}")
        for t in set(got):
            if t not in want and which == 3:
                pass  # an emitted declaration that is neither expected nor private cannot occur (names are disjoint)
        bad = {plain(t) for t in forbidden}
        for t in set(got):
            if t in bad and which == 4:
                labels.append(f"leaked:{t[3]}")
            elif t not in want and t not in bad and not (t[3] == "variant" and t[1] == "_E") and which == 3:
                labels.append(f"unexpected-declaration:{t[3]}:{t[2]}")
    return judge(labels)


def exactly_once(sel: List[int]) -> bool:
    """
    pre: len(sel) == SEL_LEN and fixed(sel)
    post: _
    """
    return declarations(sel, 3)


def no_leak(sel: List[int]) -> bool:
    """
    pre: len(sel) == SEL_LEN and fixed(sel)
    post: _
    """
    return declarations(sel, 4)


def CANDIDATES(func: str):
    import itertools

    for sel in itertools.product(range(2), range(2), range(3), range(2), range(2), range(2), range(4), range(4), range(2), range(2)):
        yield [list(sel) + [0] * 6]
