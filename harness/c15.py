"""C15 harness (Engine C): a mypy AST is analysed iff its file was collected by get_api's filter (_get_mypy_asts)."""
from __future__ import annotations

from types import SimpleNamespace
from typing import List

import safeds_stubgen.api_analyzer._get_api as G
from harness.zoo import Cur, rd
from vlib.hsupport import OutOfRange, fixed, judge, note

SEL_LEN = 12
PATHS = ["/r/pkg/__init__.py", "/r/pkg/m.py", "/r/pkg/sub/__init__.py", "/r/pkg/sub/k.py", "/r/pkg/x__init__.py",
         "/r/pkg/tests/t.py", "/r/other/__init__.py", "/r/other/o.py"]


def _dec(sel):
    cur = Cur()
    collected = [rd(sel, cur, 2) == 1 for _ in PATHS[:6]] + [False, False]  # files under the analysed root only
    # mypy's graph holds every collected file, and the files it followed imports into (here: the package 'other')
    in_graph = [True] * 6 + [rd(sel, cur, 2) == 1, rd(sel, cur, 2) == 1]
    return in_graph, collected


def ast_selection(sel: List[int]) -> bool:
    """
    pre: len(sel) == SEL_LEN and fixed(sel)
    post: _
    """
    try:
        in_graph, collected = _dec(sel)
    except OutOfRange:
        return True
    files, packages = [], []
    for p, c in zip(PATHS, collected):
        if not c:
            continue
        if p.split("/")[-1] == "__init__.py":
            packages.append(p.rsplit("/", 1)[0])
        else:
            files.append(p)
    graph = {f"k{i}": SimpleNamespace(tree=SimpleNamespace(path=p)) for i, (p, g) in enumerate(zip(PATHS, in_graph)) if g}
    got = [a.path for a in G._get_mypy_asts(SimpleNamespace(graph=graph), files, packages)]
    note("oracle")
    want = {p for p, g, c in zip(PATHS, in_graph, collected) if g and c}
    labels = []
    for p in want - set(got):
        labels.append("collected-file-not-analysed:" + ("module-name-ends-with-__init__" if p.endswith("x__init__.py") else "other"))
    for p in set(got) - want:
        labels.append("file-analysed-although-not-collected")
    if len(got) != len(set(got)):
        labels.append("file-analysed-twice")
    inits = [i for i, p in enumerate(got) if p.split("/")[-1] == "__init__.py"]
    mods = [i for i, p in enumerate(got) if p.split("/")[-1] != "__init__.py"]
    if inits and mods and max(inits) > min(mods):
        labels.append("package-inits-not-analysed-first")
    return judge(labels)


def CANDIDATES(func: str):
    from harness.zoo import all_vectors

    for vec in all_vectors(_dec, SEL_LEN):
        yield [vec]
