"""C07 harnesses (Engine C): results mirror the return annotation, or soundly cover inferred returns."""
from __future__ import annotations

from typing import List

import safeds_stubgen.stubs_generator._stub_string_generator as SG
from harness.c06 import make_visitor
from harness.zoo import Cur, rd
from oracle.recogniser import StubSyntaxError, parse_decl
from oracle.typemap import canon_api, canon_stub
from safeds_stubgen.api_analyzer._api import Module, Result
from safeds_stubgen.api_analyzer._ast_visitor import MyPyAstVisitor
from safeds_stubgen.api_analyzer._mypy_helpers import find_return_stmts_recursive
from safeds_stubgen.api_analyzer._types import ListType, NamedType, TupleType, UnionType
from safeds_stubgen.docstring_parsing import ResultDocstring
from vlib import shim
from vlib.gapi import BOOL, FLOAT, INT, NONE, STR, mk_api, mk_function, mk_module
from vlib.hsupport import THOROUGH, OutOfRange, fixed, judge, note, untraced

SEL_LEN = 14

# ------------------------------------------------------------------------------------------------------ (1) annotated
SCALARS = ["int", "str", "Klass"]


def _mypy_scalar(i):
    return [shim.instance("builtins.int"), shim.instance("builtins.str"), shim.instance("pkg.m.Klass")][i]


def _api_scalar(i):
    return [INT, STR, NamedType("Klass", "pkg.m.Klass")][i]


SCALAR_SRC = ["int", "str", "Klass"]


def decode_annotation(sel, cur):
    """-> (shape, doc mode, shim return type, expected API result types, Python source of the annotation)"""
    if True:
        shape = rd(sel, cur, 6)  # None / scalar / tuple / union / list / tuple containing None
        doc = rd(sel, cur, 3)  # result docstrings: none / all named / all unnamed
        src = "None"
        if shape == 0:
            ret, want = shim.none_type(), []
        elif shape == 1:
            i = rd(sel, cur, 3)
            ret, want, src = _mypy_scalar(i), [_api_scalar(i)], SCALAR_SRC[i]
        elif shape == 2:
            n = 1 + rd(sel, cur, 3)
            idx = [rd(sel, cur, 3) for _ in range(n)]
            ret, want = shim.tuple_type([_mypy_scalar(i) for i in idx]), [_api_scalar(i) for i in idx]
            src = "tuple[" + ", ".join(SCALAR_SRC[i] for i in idx) + "]"
        elif shape == 3:
            i, j = rd(sel, cur, 3), rd(sel, cur, 3)
            if i == j:
                raise OutOfRange
            ret, want = shim.union([_mypy_scalar(i), _mypy_scalar(j)]), [UnionType([_api_scalar(i), _api_scalar(j)])]
            src = f"{SCALAR_SRC[i]} | {SCALAR_SRC[j]}"
        elif shape == 4:
            i = rd(sel, cur, 3)
            ret, want, src = shim.instance("builtins.list", [_mypy_scalar(i)]), [ListType([_api_scalar(i)])], f"list[{SCALAR_SRC[i]}]"
        else:
            i = rd(sel, cur, 3)
            ret, want = shim.tuple_type([_mypy_scalar(i), shim.none_type()]), [_api_scalar(i), NONE]
            src = f"tuple[{SCALAR_SRC[i]}, None]"
    return shape, doc, ret, want, src


def annotated(sel: List[int]) -> bool:
    """
    pre: len(sel) == SEL_LEN and fixed(sel)
    post: _
    """
    try:
        shape, doc, ret, want, _src = decode_annotation(sel, Cur())
        n_docs = len(want) if doc else 0
        if doc and shape == 0:
            n_docs = 0
    except OutOfRange:
        return True
    shim.install()
    node = shim.func_def("f", "pkg.m.f", [], ret=ret)
    vis = make_visitor(False)
    docs = [ResultDocstring(type=None, description=f"d{k}", name=(f"named_{k}" if doc == 1 else "")) for k in range(n_docs)]
    got = vis._parse_results(node, "pkg/m/f", docs)
    note("oracle")
    labels = []
    if shape == 0:
        # '-> None' has no results: the API holds the None marker result, the stub shows no result list
        api = mk_api()
        m = mk_module(api, "pkg/m")
        f = mk_function(api, m, "f", results=[(r.name, r.type) for r in got])
        text = _fun_text(api, f)
        with untraced():
            d = parse_decl(text)
            if d.results:
                labels.append("none-annotation-yields-results")
        return judge(labels)
    if len(got) != len(want):
        return judge(["result-count-differs"])
    for k, (r, w) in enumerate(zip(got, want)):
        if canon_api(r.type.to_dict()) != canon_api(w.to_dict()):
            labels.append("result-type-or-order-differs")
        want_name = f"named_{k}" if doc == 1 else f"result_{k + 1}"
        if r.name != want_name:
            labels.append("result-name-differs:" + ("docstring-names" if doc == 1 else "generated-names"))
        if r.id != f"pkg/m/f/{r.name}":
            labels.append("result-id-malformed")
    if len({r.id for r in got}) != len(got):
        labels.append("duplicate-result-ids")
    # the rendered result list mirrors the API results
    api = mk_api()
    m = mk_module(api, "pkg/m")
    f = mk_function(api, m, "f", results=[(r.name, r.type) for r in got])
    text = _fun_text(api, f)
    with untraced():
        try:
            d = parse_decl(text)
        except StubSyntaxError as e:
            return judge([f"stub-syntax:{e.msg.split(';')[0]}"])
        if [(r.name, canon_stub(r.type)) for r in d.results] != [(r.name, canon_api(r.type.to_dict())) for r in got]:
            labels.append("rendered-results-differ:" + ("tuple-with-None" if shape == 5 else "other"))
    return judge(labels)


def _fun_text(api, f) -> str:
    gen = SG.StubsStringGenerator(api=api, convert_identifiers=False)
    gen(Module(id_="pkg/m", name="m"))
    gen._set_module_id("pkg/m")
    return gen._create_function_string(f)


# ------------------------------------------------------------------------------------------- (2) grouping of inferred results
LEAF = [INT, STR, BOOL, FLOAT]


def grouping(sel: List[int]) -> bool:
    """_create_inferred_results on a sorted set of inferred return types: every type at every position is covered by
    the result at that position; result ids are pairwise distinct; no exception.

    pre: len(sel) == SEL_LEN and fixed(sel)
    post: _
    """
    try:
        cur = Cur()
        n = 1 + rd(sel, cur, 3 if THOROUGH else 2)
        wide = THOROUGH and n <= 2  # thorough: tuples of <= 3 over 4 leaf types for <= 2 return types; 3 return types with the quick item pool
        items = []
        for _ in range(n):
            arity = rd(sel, cur, 4 if wide else 3)  # 0: a plain NamedType; k: a tuple of k NamedTypes
            if arity == 0:
                items.append(LEAF[rd(sel, cur, 4)])
            else:
                items.append(TupleType([LEAF[rd(sel, cur, 4 if wide else 2)] for _ in range(arity)]))
        ndoc = rd(sel, cur, 3)
    except OutOfRange:
        return True
    # the caller passes a set made duplicate-free and sorted by its (non-injective) key
    uniq = []
    for it in items:
        if it not in uniq:
            uniq.append(it)
    uniq.sort(key=lambda x: (x.name if isinstance(x, NamedType) else str(len(x.types))))
    docs = [ResultDocstring(type=INT, description="d", name=f"doc_{k}") for k in range(ndoc)]
    got = MyPyAstVisitor._create_inferred_results(TupleType(types=uniq), docs, "pkg/m/f")
    note("oracle")
    labels = []
    with untraced():
        def members(t):
            d = t.to_dict()
            return [canon_api(x) for x in d["types"]] if d["kind"] == "UnionType" else [canon_api(d)]

        for it in uniq:
            positions = it.types if isinstance(it, TupleType) else [it]
            for pos, ty in enumerate(positions):
                if pos >= len(got):
                    labels.append("returned-position-has-no-result")
                elif canon_api(ty.to_dict()) not in members(got[pos].type):
                    labels.append("returned-type-not-covered-by-result")
        if len({r.id for r in got}) != len(got):
            labels.append("duplicate-result-ids:docstring-name-reused" if ndoc else "duplicate-result-ids")
    return judge(labels)


# ------------------------------------------------------------------------------------------- (3) return statement search
LITS = ["int", "str", "bool", "tuple"]


def _lit_expr(i):
    return [shim.int_expr(1), shim.str_expr("s"), shim.name_expr("True", "builtins.True"),
            shim.tuple_expr([shim.int_expr(1), shim.str_expr("s")])][i]


LIT_SRC = ["1", '"s"', "True", '1, "s"']
N_STMT = 14


def _ind(lines):
    return ["    " + ln for ln in lines]


def stmt_tree(sel, cur, depth: int, found: list, path: str):
    """A statement list containing exactly one `return <literal>` somewhere inside a nest of compound statements.
    Returns (shim statements, Python source lines); appends (literal kind, clause path) to `found`."""
    k = rd(sel, cur, N_STMT if depth > 0 else 1)
    if k == 0:
        i = rd(sel, cur, len(LITS))
        cond = rd(sel, cur, 2) == 1
        found.append((LITS[i], path))
        e = _lit_expr(i)
        src = LIT_SRC[i]
        if cond:
            e = shim.conditional(e, shim.int_expr(2))
            src = f"({src}) if c else 2"
            found.append(("int", path))
        return [shim.return_stmt(e)], [f"return {src}"]
    inner = lambda p: stmt_tree(sel, cur, depth - 1, found, path + "/" + p)  # noqa: E731
    filler = [shim.expr_stmt(shim.call_expr())]
    fl = ["g()"]
    if k == 1:
        b, l = inner("if")
        return [shim.if_stmt([b])], ["if c:", *_ind(l)]
    if k == 2:
        b, l = inner("else")
        return [shim.if_stmt([filler], else_body=b)], ["if c:", *_ind(fl), "else:", *_ind(l)]
    if k == 3:
        b, l = inner("elif")
        return [shim.if_stmt([filler], else_body=[shim.if_stmt([b])])], ["if c:", *_ind(fl), "elif c:", *_ind(l)]
    if k == 4:
        b, l = inner("try")
        return [shim.try_stmt(b, handlers=[filler])], ["try:", *_ind(l), "except Exception:", *_ind(fl)]
    if k == 5:
        b, l = inner("except")
        return [shim.try_stmt(filler, handlers=[b])], ["try:", *_ind(fl), "except Exception:", *_ind(l)]
    if k == 6:
        b, l = inner("try-else")
        return [shim.try_stmt(filler, handlers=[filler], else_body=b)], ["try:", *_ind(fl), "except Exception:", *_ind(fl), "else:", *_ind(l)]
    if k == 7:
        b, l = inner("finally")
        return [shim.try_stmt(filler, handlers=[filler], finally_body=b)], ["try:", *_ind(fl), "except Exception:", *_ind(fl), "finally:", *_ind(l)]
    if k == 8:
        if rd(sel, cur, 2) == 0:
            b, l = inner("for")
            return [shim.for_stmt(b)], ["for i in xs:", *_ind(l)]
        b, l = inner("for-else")
        return [shim.for_stmt(filler, else_body=b)], ["for i in xs:", *_ind(fl), "else:", *_ind(l)]
    if k == 9:
        if rd(sel, cur, 2) == 0:
            b, l = inner("while")
            return [shim.while_stmt(b)], ["while c:", *_ind(l)]
        b, l = inner("while-else")
        return [shim.while_stmt(filler, else_body=b)], ["while c:", *_ind(fl), "else:", *_ind(l)]
    if k == 10:
        b, l = inner("with")
        return [shim.with_stmt(b)], ["with cm:", *_ind(l)]
    if k == 11:
        b, l = inner("case")
        return [shim.match_stmt([filler, b])], ["match s:", "    case 1:", *_ind(_ind(fl)), "    case _:", *_ind(_ind(l))]
    if k == 12:  # try with BOTH an else and a finally clause, return in the finally clause
        b, l = inner("finally")
        return [shim.try_stmt(filler, handlers=[filler], else_body=filler, finally_body=b)], [
            "try:", *_ind(fl), "except Exception:", *_ind(fl), "else:", *_ind(fl), "finally:", *_ind(l)]
    b, l = inner("try-else")  # ... return in the else clause
    return [shim.try_stmt(filler, handlers=[filler], else_body=b, finally_body=filler)], [
        "try:", *_ind(fl), "except Exception:", *_ind(fl), "else:", *_ind(l), "finally:", *_ind(fl)]


def inferred(sel: List[int]) -> bool:
    """Un-annotated function: every literal kind returned anywhere in the body is covered by the inferred result types.

    pre: len(sel) == SEL_LEN and fixed(sel)
    post: _
    """
    try:
        found: list = []
        body, _src = stmt_tree(sel, Cur(), 2, found, "")
    except OutOfRange:
        return True
    shim.install()
    node = shim.func_def("f", "pkg.m.f", [], annotated=False, body=body)
    stmts = find_return_stmts_recursive(node.body.body)
    vis = make_visitor(False)
    got = vis._parse_results(node, "pkg/m/f", [])
    note("oracle")
    labels = []
    with untraced():
        clause = found[0][1].split("/")[-1] if found[0][1] else "top"
        outer = "/".join(p for p in found[0][1].split("/") if p in ("try-else", "finally", "for-else", "while-else"))
        where = outer or "plain-clauses"
        if len(stmts) != 1:
            labels.append(f"return-statement-not-found:{where}")
        want = {"int": "Int", "str": "String", "bool": "Boolean"}
        kinds = [k for k, _ in found]
        if "tuple" in kinds:
            positions = [["Int"], ["String"]]
            positions[0] += ["Int"] if "int" in kinds else []
        else:
            positions = [[want[k] for k in kinds]]
        for pos, needed in enumerate(positions):
            if pos >= len(got):
                labels.append(f"returned-value-not-covered:{where}")
                break
            d = got[pos].type.to_dict()
            have = [canon_api(x) for x in d["types"]] if d["kind"] == "UnionType" else [canon_api(d)]
            for n in needed:
                if n not in have:
                    labels.append(f"returned-value-not-covered:{where}")
        del clause
    return judge(labels)


def no_return(sel: List[int]) -> bool:
    """A function with neither annotation nor `return <value>` has no results.

    pre: len(sel) == SEL_LEN and fixed(sel)
    post: _
    """
    try:
        cur = Cur()
        k = rd(sel, cur, 4)
    except OutOfRange:
        return True
    shim.install()
    filler = [shim.expr_stmt(shim.call_expr())]
    body = [filler, [shim.pass_stmt()], [shim.if_stmt([filler], else_body=filler)], [shim.return_stmt(None)]][k]
    node = shim.func_def("f", "pkg.m.f", [], annotated=False, body=body)
    vis = make_visitor(False)
    try:
        got = vis._parse_results(node, "pkg/m/f", [])
    except AttributeError:
        return judge(["exc:AttributeError:bare-return"])
    note("oracle")
    return judge([] if got == [] else ["results-without-annotation-or-return"])


def CANDIDATES(func: str):
    from harness.zoo import all_vectors

    dec = {
        "annotated": lambda s: _dec_annotated(s),
        "grouping": lambda s: _dec_grouping(s),
        "inferred": lambda s: stmt_tree(s, Cur(), 2, [], ""),
        "no_return": lambda s: rd(s, Cur(), 4),
        "several_returns": _dec_two,
    }[func]
    for vec in all_vectors(dec, SEL_LEN):
        yield [vec]


def _dec_annotated(s):
    decode_annotation(s, Cur())


def _dec_grouping(s):
    cur = Cur()
    n = 1 + rd(s, cur, 3 if THOROUGH else 2)
    wide = THOROUGH and n <= 2
    for _ in range(n):
        arity = rd(s, cur, 4 if wide else 3)
        if arity == 0:
            rd(s, cur, 4)
        else:
            for _ in range(arity):
                rd(s, cur, 4 if wide else 2)
    rd(s, cur, 3)


def conformance(limit: int = 500) -> dict:
    """Statement builders vs the real mypy: every statement tree of the grammar is rendered into one module, parsed by
    the real mypy; the real visitor must infer identical results on real nodes and on builder-made shim nodes."""
    from harness.zoo import all_vectors
    from vlib import shim_conformance as SC

    vecs = list(all_vectors(lambda s: stmt_tree(s, Cur(), 2, [], ""), SEL_LEN))
    step = max(1, len(vecs) // limit)
    vecs = vecs[::step]
    funcs, src = [], ["c = True", "xs = [1]", "s = 1", "cm = open('x')", "", "", "def g(): ...", ""]
    for i, vec in enumerate(vecs):
        body, lines = stmt_tree(list(vec), Cur(), 2, [], "")
        funcs.append(shim.func_def(f"f{i}", f"pkg.m.f{i}", [], annotated=False, body=body))
        src += [f"def f{i}():", *_ind(lines), ""]
    # annotated functions of the first harness (docstring dimension dropped: plaintext docstrings name no results)
    src += ["class Klass: ...", ""]
    seen = set()
    for vec in all_vectors(lambda s: decode_annotation(s, Cur()), SEL_LEN):
        shape, doc, ret, want, asrc = decode_annotation(list(vec), Cur())
        if doc or asrc in seen:
            continue
        seen.add(asrc)
        k = len(funcs)
        funcs.append(shim.func_def(f"f{k}", f"pkg.m.f{k}", [], ret=ret, body=[shim.expr_stmt(shim.mk(shim.N.EllipsisExpr))]))
        src += [f"def f{k}() -> {asrc}: ...", ""]
    g = shim.func_def("g", "pkg.m.g", [], annotated=False, body=[shim.expr_stmt(shim.mk(shim.N.EllipsisExpr))])
    pre = [shim.assignment([shim.name_expr(n, "pkg.m." + n)]) for n in ("c", "xs", "s", "cm")]
    klass = shim.class_def("Klass", "pkg.m.Klass", [shim.expr_stmt(shim.mk(shim.N.EllipsisExpr))])
    tree = shim.mypy_file("pkg.m", "pkg/m.py", defs=[*pre, g, *funcs[: len(vecs)], klass, *funcs[len(vecs):]])

    def pick(d):
        return {"results": d["results"], "functions": [{k: f[k] for k in ("id", "results")} for f in d["functions"]]}

    r = SC.check_builder({"pkg/__init__.py": "", "pkg/m.py": "\n".join(src) + "\n"}, [tree], pick=pick)
    out = {"functions": len(funcs), "real_vs_converted": r["real_vs_converted"], "real_vs_builder": r["real_vs_builder"],
           "errors": r["errors_real"] + r["errors_builder"]}
    if not r["real_vs_builder"]:
        rr = {x["id"]: x for x in r["real"]["functions"]}
        bb = {x["id"]: x for x in r["built"]["functions"]}
        out["first_differences"] = [(k, rr.get(k), bb.get(k)) for k in sorted(set(rr) | set(bb)) if rr.get(k) != bb.get(k)][:3]
    return out


def conformance_job() -> dict:
    import logging
    import time

    logging.disable(logging.CRITICAL)
    t = time.time()
    r = conformance()
    ok = r["real_vs_converted"] and r["real_vs_builder"] and not r["errors"]
    return {"queries": [{"id": "shim_conformance", "verdict": "holds" if ok else "harness_error", "seconds": round(time.time() - t, 1),
                         "bound": f"{r['functions']} function bodies rendered to Python and parsed by the real mypy",
                         "detail": "" if ok else str(r)[:1500]}],
            "validation": {"samples": r["functions"], "mismatches": 0 if ok else 1, "details": []}}


# ----------------------------------------------------------------------------------- (5) several return statements
RET_SHAPES = [("int",), ("str",), ("bool",), ("int", "str"), ("str", "int"), ("int", "int"), ("bool", "str", "int")]
LIT_OF = {"int": (lambda: shim.int_expr(1), "1"), "str": (lambda: shim.str_expr("s"), '"s"'),
          "bool": (lambda: shim.name_expr("True", "builtins.True"), "True")}


def _dec_two(sel):
    cur = Cur()
    a = rd(sel, cur, len(RET_SHAPES))
    b = rd(sel, cur, len(RET_SHAPES))
    if a == b:
        raise OutOfRange
    c = rd(sel, cur, len(RET_SHAPES) + 1) if THOROUGH else len(RET_SHAPES)
    return [RET_SHAPES[i] for i in (a, b) + ((c,) if c < len(RET_SHAPES) else ())]


def _ret_expr(shape):
    items = [LIT_OF[k][0]() for k in shape]
    return items[0] if len(items) == 1 else shim.tuple_expr(items)


def several_returns(sel: List[int]) -> bool:
    """Un-annotated function with two (thorough: three) return statements of different shapes: every literal kind
    returned at every position is covered by the inferred result at that position.

    pre: len(sel) == SEL_LEN and fixed(sel)
    post: _
    """
    try:
        shapes = _dec_two(sel)
    except OutOfRange:
        return True
    shim.install()
    body = [shim.if_stmt([[shim.return_stmt(_ret_expr(s))]]) for s in shapes[:-1]] + [shim.return_stmt(_ret_expr(shapes[-1]))]
    node = shim.func_def("f", "pkg.m.f", [], annotated=False, body=body)
    vis = make_visitor(False)
    got = vis._parse_results(node, "pkg/m/f", [])
    note("oracle")
    labels = []
    with untraced():
        want = {"int": "Int", "str": "String", "bool": "Boolean"}
        for shape in shapes:
            for pos, kind in enumerate(shape):
                if pos >= len(got):
                    labels.append("returned-position-has-no-result")
                    continue
                d = got[pos].type.to_dict()
                have = [canon_api(x) for x in d["types"]] if d["kind"] == "UnionType" else [canon_api(d)]
                if want[kind] not in have:
                    perm = any(sorted(s) == sorted(shape) and s != shape for s in shapes)
                    labels.append("returned-value-not-covered:" + ("tuples-that-are-permutations-of-each-other" if perm else "other"))
        if len({r.id for r in got}) != len(got):
            labels.append("duplicate-result-ids")
    return judge(labels)
