"""CLI wiring harness (Engine C), shared by C09 (-nc), C14 (-tsp/-tsw), C15 (-tr) and C01 (stage order):
every option combination is parsed by the real argparse set-up and forwarded unchanged to get_api / the generator."""
from __future__ import annotations

import sys
from typing import List

import safeds_stubgen.api_analyzer.cli._cli as CLI
from harness.zoo import Cur, rd
from safeds_stubgen.api_analyzer import TypeSourcePreference, TypeSourceWarning
from safeds_stubgen.docstring_parsing import DocstringStyle
from vlib.gapi import FakePath
from vlib.hsupport import OutOfRange, fixed, judge, note

SEL_LEN = 8
STYLES = [None, "plaintext", "google", "numpydoc", "rest", "GOOGLE", "Rest"]


def wiring(sel: List[int]) -> bool:
    """
    pre: len(sel) == SEL_LEN and fixed(sel)
    post: _
    """
    try:
        cur = Cur()
        style = STYLES[rd(sel, cur, len(STYLES))]
        tr = rd(sel, cur, 2) == 1
        nc = rd(sel, cur, 2) == 1
        tsp = [None, "code", "docstring", "DOCSTRING"][rd(sel, cur, 4)]
        tsw = [None, "warn", "ignore", "Ignore"][rd(sel, cur, 4)]
    except OutOfRange:
        return True
    argv = ["prog", "-s", "/src/pkg", "-o", "/out"]
    if style is not None:
        argv += ["--docstyle", style]
    if tr:
        argv += ["-tr"]
    if nc:
        argv += ["-nc"]
    if tsp is not None:
        argv += ["-tsp", tsp]
    if tsw is not None:
        argv += ["-tsw", tsw]
    calls = []
    saved_argv, saved_run = sys.argv, CLI._run_stub_generator
    sys.argv = argv
    CLI._run_stub_generator = lambda **kw: calls.append(kw)
    try:
        CLI.cli()
    finally:
        sys.argv, CLI._run_stub_generator = saved_argv, saved_run
    note("oracle")
    labels = []
    if len(calls) != 1:
        return judge(["cli-does-not-run-the-generator-once"])
    kw = calls[0]
    want_style = DocstringStyle[(style or "plaintext").upper()]
    got_style = kw["docstring_style"]
    if got_style is not want_style and not (style is None and got_style == DocstringStyle.PLAINTEXT.name):
        labels.append("wiring:docstyle")
    if kw["is_test_run"] is not tr:
        labels.append("wiring:testrun-flag")
    if kw["convert_identifiers"] is not nc:
        labels.append("wiring:naming-convert-flag")
    want_p = TypeSourcePreference[(tsp or "code").upper()]
    if kw["type_source_preference"] is not want_p and not (tsp is None and kw["type_source_preference"] == "CODE"):
        labels.append("wiring:type-source-preference")
    want_w = TypeSourceWarning[(tsw or "warn").upper()]
    if kw["type_source_warning"] is not want_w and not (tsw is None and kw["type_source_warning"] == "WARN"):
        labels.append("wiring:type-source-warning")
    # second stage: _run_stub_generator forwards everything unchanged
    seen = {}
    saved = (CLI.get_api, CLI.StubsStringGenerator, CLI.generate_stub_data, CLI.create_stub_files)

    class Api:
        def to_json_file(self, path):
            seen["json"] = str(path)

    CLI.get_api = lambda **k: seen.update(get_api=k) or Api()
    CLI.StubsStringGenerator = lambda api, convert_identifiers: seen.update(convert=convert_identifiers) or "G"
    CLI.generate_stub_data = lambda stubs_generator, out_path: []
    CLI.create_stub_files = lambda stubs_generator, stubs_data, out_path: None
    try:
        saved_run(src_dir_path=FakePath("/src/pkg"), out_dir_path=FakePath("/out"), docstring_style=kw["docstring_style"],
                  is_test_run=kw["is_test_run"], convert_identifiers=kw["convert_identifiers"],
                  type_source_preference=kw["type_source_preference"], type_source_warning=kw["type_source_warning"])
    finally:
        CLI.get_api, CLI.StubsStringGenerator, CLI.generate_stub_data, CLI.create_stub_files = saved
    g = seen.get("get_api", {})
    if g.get("is_test_run") is not kw["is_test_run"]:
        labels.append("forwarding:testrun-flag")
    if g.get("docstring_style") is not kw["docstring_style"]:
        labels.append("forwarding:docstyle")
    if g.get("type_source_preference") is not kw["type_source_preference"] or g.get("type_source_warning") is not kw["type_source_warning"]:
        labels.append("forwarding:type-source-options")
    if seen.get("convert") is not kw["convert_identifiers"]:
        labels.append("forwarding:naming-convert-flag")
    if str(g.get("root")) != "/src/pkg":
        labels.append("forwarding:source-path")
    return judge(labels)


def CANDIDATES(func: str):
    import itertools

    for sel in itertools.product(range(len(STYLES)), range(2), range(2), range(4), range(4)):
        yield [list(sel) + [0] * 3]
