#!/bin/bash
# Build the overlay venv used by every check (offline; idempotent).
set -e
V=/verif/.venv
if [ ! -x "$V/bin/crosshair" ] || ! "$V/bin/python" -c 'import crosshair, z3, cvc5' 2>/dev/null; then
  rm -rf "$V"
  /venv/bin/python -m venv "$V"
  SP=$("$V/bin/python" -c 'import site; print(site.getsitepackages()[0])')
  printf "import site; site.addsitedir('/venv/lib/python3.12/site-packages')\n/repo/src\n/verif\n" > "$SP/verif_overlay.pth"
  PIP_NO_INDEX=1 "$V/bin/pip" install -q --no-index --find-links /opt/veriftools/wheels crosshair-tool z3-solver cvc5 >/dev/null
fi
"$V/bin/python" -c 'import crosshair, z3, cvc5, safeds_stubgen, mypy; print("overlay ok", z3.get_version_string())'
