#!/bin/bash
# Run every property's check (default: quick) one after the other; summary at the end.
tier=${1:-quick}
cd "$(dirname "$0")/.." || exit 3
rc=0
for i in $(seq -w 1 20); do
  start=$(date +%s)
  out=$(./bin/check C$i --tier $tier 2>&1); code=$?
  echo "$out" | grep -E "^(VIOLATION|HARNESS-ERROR|INCONCLUSIVE)" | head -5
  echo "$out" | tail -1 | sed "s/^/[exit $code, $(( $(date +%s) - start ))s] /"
  [ $code -ne 0 ] && rc=1
done
exit $rc
