"""Native replay of a harness call: python -m vlib.replay '{"module":..,"func":..,"args":[..]}'

Outcome: true | false | repo_exception (innermost frame inside /repo/src) | harness_exception (anywhere else).
"""
from __future__ import annotations

import os

# the checkout under analysis: /repo, or the scratch copy VERIF_REPO points at
REPO_SRC = (os.environ.get("VERIF_REPO") or "/repo").rstrip("/") + "/src/"

import importlib
import json
import sys
import traceback


def classify(module: str, func: str, args: list) -> dict:
    mod = importlib.import_module(module)
    fn = getattr(mod, func)
    try:
        r = fn(*args)
    except Exception as e:  # noqa: BLE001
        tb = traceback.extract_tb(e.__traceback__)
        repo_frames = [f for f in tb if f.filename.startswith(REPO_SRC)]
        detail = "".join(traceback.format_exception_only(type(e), e)).strip()
        if type(e).__name__ == "RepoFailure":
            return {"outcome": "false", "detail": detail}
        if repo_frames and tb[-1].filename.startswith(REPO_SRC):
            f = repo_frames[-1]
            return {
                "outcome": "repo_exception",
                "exc_type": type(e).__name__,
                "repo_frame": f"{f.filename.split('/')[-1]}:{f.name}",
                "detail": detail + f" at {f.filename}:{f.lineno}",
            }
        if repo_frames:
            # raised in library code called from the repository (e.g. KeyError inside dict lookup is still tb[-1] in repo);
            # an exception whose innermost frame is outside /repo but which passed through it: attribute to the repo frame
            f = repo_frames[-1]
            inner = tb[-1]
            if not inner.filename.startswith("/verif/"):
                return {
                    "outcome": "repo_exception",
                    "exc_type": type(e).__name__,
                    "repo_frame": f"{f.filename.split('/')[-1]}:{f.name}",
                    "detail": detail + f" at {f.filename}:{f.lineno} (raised in {inner.filename}:{inner.lineno})",
                }
        return {"outcome": "harness_exception", "detail": detail, "traceback": traceback.format_exc()[-1500:]}
    if r is True:
        return {"outcome": "true"}
    if r is False:
        return {"outcome": "false", "detail": "postcondition false"}
    return {"outcome": "harness_exception", "detail": f"harness returned {r!r}"}


if __name__ == "__main__":
    p = json.loads(sys.argv[1])
    print("REPLAY " + json.dumps(classify(p["module"], p["func"], p["args"])))
