"""CrossHair worker: analyse one harness function (one partition) through CrossHair's API and print one JSON line.

usage: python -m vlib.ch_worker <module> <function> <per_condition_timeout> [<per_path_timeout>]
env:   VERIF_FIX (partition), VERIF_TIER

The verdict is CrossHair's: CONFIRMED (all paths explored, z3 decided every branch), a counterexample, or
inconclusive (CANNOT_CONFIRM / PRE_UNSAT).  Nothing here samples.
"""
from __future__ import annotations

import ast
import collections
import importlib
import json
import sys
import time


def install_plugin() -> None:
    """Treat frozenset constants like sets for symbolic containment (x in {"a", "b"} compiles to a frozenset)."""
    from crosshair import opcode_intercept as oi
    from crosshair.core import CrossHairValue
    from crosshair.libimpl.builtinslib import LinearSet, ShellMutableSet
    from crosshair.tracers import frame_stack_read, frame_stack_write

    _orig = oi.ContainmentInterceptor.trace_op

    def trace_op(self, frame, codeobj, codenum):  # noqa: ANN001
        item = frame_stack_read(frame, -2)
        if isinstance(item, CrossHairValue):
            container = frame_stack_read(frame, -1)
            if type(container) is frozenset:
                frame_stack_write(frame, -1, ShellMutableSet(LinearSet(sorted(container, key=repr))))
                return None
        return _orig(self, frame, codeobj, codenum)

    oi.ContainmentInterceptor.trace_op = trace_op

    # CrossHair's patched hash() carries a contract and is therefore "short-circuited" (replaced by an unconstrained
    # int) on a random subset of paths.  The laws checked here are about the real hash values: always call into it.
    import crosshair.core as core

    core.ShortCircuitingContext.make_interceptor = lambda self, original: original


def parse_call(message: str, fname: str):
    """Extract the literal arguments of '... when calling f(a, b, c) ...' from a CrossHair message."""
    key = "when calling " + fname + "("
    i = message.find(key)
    if i < 0:
        return None
    text = message[i + len("when calling "):]
    for k in range(len(text)):
        if text[k] != ")":
            continue
        try:
            node = ast.parse(text[: k + 1], mode="eval").body
        except SyntaxError:
            continue
        if isinstance(node, ast.Call):
            try:
                args = [ast.literal_eval(a) for a in node.args]
                kwargs = {kw.arg: ast.literal_eval(kw.value) for kw in node.keywords}
            except Exception:  # noqa: BLE001
                return None
            return {"args": args, "kwargs": kwargs}
    return None


def main() -> None:
    module, func = sys.argv[1], sys.argv[2]
    timeout = float(sys.argv[3])
    per_path = float(sys.argv[4]) if len(sys.argv) > 4 else None
    t0 = time.time()
    out: dict = {"module": module, "function": func, "timeout": timeout}
    try:
        import crosshair.core as core
        from crosshair.core_and_libs import analyze_function, run_checkables
        from crosshair.options import AnalysisKind, AnalysisOptionSet
        from crosshair.statespace import MessageType

        install_plugin()
        captured = []
        _orig_calltree = core.analyze_calltree

        def _wrapped(options, conditions):  # noqa: ANN001
            r = _orig_calltree(options, conditions)
            captured.append(r)
            return r

        core.analyze_calltree = _wrapped
        mod = importlib.import_module(module)
        fn = getattr(mod, func)
        prepare = getattr(mod, f"PREPARE_{func}", None)
        if prepare is not None:  # native set-up that must not run under the tracer (e.g. a real mypy build of a fixed corpus)
            prepare()
        stats: collections.Counter = collections.Counter()
        opts = AnalysisOptionSet(
            per_condition_timeout=timeout,
            per_path_timeout=per_path,
            report_all=True,
            analysis_kind=[AnalysisKind.PEP316],
            stats=stats,
        )
        checkables = analyze_function(fn, opts)
        msgs = run_checkables(checkables)
        states = [m.state for m in msgs]
        out["messages"] = [{"state": m.state.name, "message": m.message, "line": m.line,
                            **({"traceback": (getattr(m, "traceback", "") or "")[-1500:]} if m.state.name == "EXEC_ERR" else {})} for m in msgs]
        out["paths"] = int(stats.get("num_paths", 0))
        out["confirmed_paths"] = sum(c.num_confirmed_paths for c in captured)
        hs = sys.modules.get("vlib.hsupport")
        out["harness_stats"] = dict(hs.STATS) if hs else {}
        bad = [m for m in msgs if m.state in (MessageType.POST_FAIL, MessageType.EXEC_ERR, MessageType.POST_ERR)]
        if bad:
            out["verdict"] = "counterexample"
            out["cex_message"] = bad[0].message
            out["cex"] = parse_call(bad[0].message, func)
        elif any(s in (MessageType.SYNTAX_ERR, MessageType.IMPORT_ERR) for s in states) or not msgs:
            out["verdict"] = "error"
        elif states and all(s == MessageType.CONFIRMED for s in states):
            out["verdict"] = "confirmed"
        elif any(s == MessageType.PRE_UNSAT for s in states):
            out["verdict"] = "pre_unsat"
        else:
            out["verdict"] = "not_confirmed"
    except BaseException as e:  # noqa: BLE001
        import traceback

        out["verdict"] = "error"
        out["error"] = f"{type(e).__name__}: {e}"
        out["traceback"] = traceback.format_exc()[-2000:]
    out["wall_s"] = round(time.time() - t0, 2)
    print("CHRESULT " + json.dumps(out))


if __name__ == "__main__":
    main()
