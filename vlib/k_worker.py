"""Engine K worker: python -m vlib.k_worker <module> <function>  -> prints 'KRESULT <json>'.
The function builds its encodings from /repo's current source and returns KJob.result()."""
from __future__ import annotations

import importlib
import json
import sys
import traceback

if __name__ == "__main__":
    try:
        mod = importlib.import_module(sys.argv[1])
        res = getattr(mod, sys.argv[2])()
    except BaseException as e:  # noqa: BLE001
        res = {"queries": [], "error": f"{type(e).__name__}: {e}", "traceback": traceback.format_exc()[-3000:]}
    print("KRESULT " + json.dumps(res, default=str))
