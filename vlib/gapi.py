"""G_api: constructors for API models (the input of the generator-side code) and a stubbed file system.

Everything here builds *real* `safeds_stubgen` objects; nothing is mocked except pathlib I/O (FakePath).
The re-export tables are filled through the repository's own `_add_reexports` / `_get_reexported_by`.
"""
from __future__ import annotations

from pathlib import PurePosixPath
from types import SimpleNamespace

import safeds_stubgen.stubs_generator._generate_stubs as GS
import safeds_stubgen.stubs_generator._stub_string_generator as SG
from safeds_stubgen.api_analyzer import (
    API,
    Attribute,
    Class,
    Enum,
    Function,
    Module,
    Parameter,
    ParameterAssignment,
    QualifiedImport,
    Result,
    WildcardImport,
)
from safeds_stubgen.api_analyzer._api import EnumInstance
from safeds_stubgen.api_analyzer._ast_visitor import MyPyAstVisitor
from safeds_stubgen.api_analyzer._types import NamedType
from safeds_stubgen.docstring_parsing import (
    AttributeDocstring,
    ClassDocstring,
    FunctionDocstring,
    ParameterDocstring,
    ResultDocstring,
)

PA = ParameterAssignment
INT = NamedType("int", "builtins.int")
STR = NamedType("str", "builtins.str")
BOOL = NamedType("bool", "builtins.bool")
FLOAT = NamedType("float", "builtins.float")
NONE = NamedType("None", "builtins.None")
ANY = NamedType("Any", "typing.Any")


def mk_api(package: str = "pkg") -> API:
    return API(distribution="", package=package, version="")


def mk_module(api: API, id_: str, docstring: str = "", imports=(), wildcards=()) -> Module:
    """imports: iterable of (qualified_name, alias|None); an `__init__` module has name '__init__'."""
    name = id_.split("/")[-1]
    m = Module(
        id_=id_,
        name=name,
        docstring=docstring,
        qualified_imports=[QualifiedImport(q, a) for q, a in imports],
        wildcard_imports=[WildcardImport(w) for w in wildcards],
    )
    api.add_module(m)
    return m


def mk_init_module(api: API, package_id: str, imports=(), wildcards=(), docstring: str = "") -> Module:
    """The module object the visitor creates for `<package>/__init__.py`: id = package path, name = '__init__'."""
    m = Module(
        id_=package_id,
        name="__init__",
        docstring=docstring,
        qualified_imports=[QualifiedImport(q, a) for q, a in imports],
        wildcard_imports=[WildcardImport(w) for w in wildcards],
    )
    api.add_module(m)
    # the repository's own bookkeeping
    MyPyAstVisitor._add_reexports(SimpleNamespace(api=api), m)
    return m


def reexported_by(api: API, qname: str) -> list[Module]:
    """The repository's own `_get_reexported_by` followed by the sort the visitor applies."""
    r = MyPyAstVisitor._get_reexported_by(SimpleNamespace(api=api), qname)
    r.sort(key=lambda x: x.id)
    return r


def mk_class(
    api: API,
    owner: Module | Class,
    name: str,
    public: bool = True,
    supers=(),
    doc: str = "",
    exception: bool = False,
    type_parameters=(),
    with_reexports: bool = True,
    examples=(),
) -> Class:
    cid = f"{owner.id}/{name}"
    c = Class(
        id=cid,
        name=name,
        superclasses=list(supers),
        is_public=public,
        docstring=ClassDocstring(description=doc, full_docstring=doc, examples=list(examples)),
        inherits_from_exception=exception,
        type_parameters=list(type_parameters),
        reexported_by=reexported_by(api, cid.replace("/", ".")) if with_reexports else [],
    )
    api.add_class(c)
    owner.add_class(c)
    return c


def mk_param(
    fid: str,
    name: str,
    type_=None,
    kind: ParameterAssignment = PA.POSITION_OR_NAME,
    optional: bool = False,
    default=None,
    doc: str = "",
) -> Parameter:
    return Parameter(
        id=f"{fid}/{name}",
        name=name,
        is_optional=optional,
        default_value=default,
        assigned_by=kind,
        docstring=ParameterDocstring(description=doc),
        type=type_,
    )


def mk_function(
    api: API,
    owner: Module | Class,
    name: str,
    params=(),  # list of dict(name=, type_=, kind=, optional=, default=, doc=)
    results=(),  # list of (name, type)
    public: bool = True,
    static: bool = False,
    class_method: bool = False,
    prop: bool = False,
    doc: str = "",
    result_docs=(),  # list of (name, description)
    type_vars=(),
    with_reexports: bool = True,
    examples=(),
) -> Function:
    fid = f"{owner.id}/{name}"
    f = Function(
        id=fid,
        name=name,
        docstring=FunctionDocstring(description=doc, full_docstring=doc, examples=list(examples)),
        is_public=public,
        is_static=static,
        is_class_method=class_method,
        is_property=prop,
        result_docstrings=[ResultDocstring(type=None, description=d, name=n) for n, d in result_docs],
        type_var_types=list(type_vars),
        results=[Result(id=f"{fid}/{rn}", name=rn, type=rt) for rn, rt in results],
        reexported_by=reexported_by(api, fid.replace("/", ".")) if with_reexports and isinstance(owner, Module) else [],
        parameters=[mk_param(fid, **p) for p in params],
    )
    api.add_function(f)
    api.add_results(f.results)
    for p in f.parameters:
        api.add_parameter(p)
    if isinstance(owner, Module):
        owner.add_function(f)
    elif name == "__init__":
        owner.add_constructor(f)
    else:
        owner.add_method(f)
    return f


def mk_attr(api: API, cls: Class, name: str, type_=None, public: bool = True, static: bool = True, doc: str = ""):
    a = Attribute(
        id=f"{cls.id}/{name}",
        name=name,
        is_public=public,
        is_static=static,
        type=type_,
        docstring=AttributeDocstring(description=doc),
    )
    api.add_attribute(a)
    cls.add_attribute(a)
    return a


def mk_enum(api: API, module: Module, name: str, instances=(), doc: str = "") -> Enum:
    e = Enum(id=f"{module.id}/{name}", name=name, docstring=ClassDocstring(description=doc, full_docstring=doc))
    for i in instances:
        inst = EnumInstance(id=f"{e.id}/{i}", name=i)
        e.add_enum_instance(inst)
        api.add_enum_instance(inst)
    api.add_enum(e)
    module.add_enum(e)
    return e


def self_param() -> dict:
    return {"name": "self", "kind": PA.IMPLICIT}


# ------------------------------------------------------------------------------------------------- stubbed file system


class FakeFS:
    def __init__(self) -> None:
        self.files: dict[str, str] = {}
        self.dirs: set[str] = set()
        self.writes: list[tuple[str, str, str]] = []  # (path, mode, text)


class _FakeFile:
    def __init__(self, fs: FakeFS, path: str, mode: str) -> None:
        self.fs, self.path, self.mode = fs, path, mode
        if mode.startswith("w"):
            fs.files[path] = ""
        elif mode.startswith("a"):
            fs.files.setdefault(path, "")
        else:  # pragma: no cover
            raise ValueError(mode)

    def __enter__(self):
        return self

    def __exit__(self, *a) -> None:
        return None

    def write(self, text: str) -> int:
        self.fs.files[self.path] += text
        self.fs.writes.append((self.path, self.mode, text))
        return len(text)


class FakePath(PurePosixPath):
    """pathlib.Path stand-in: pure path algebra is the real PurePosixPath; I/O goes to FakePath.fs."""

    fs: FakeFS = FakeFS()

    def mkdir(self, parents: bool = False, exist_ok: bool = False) -> None:  # noqa: ARG002
        FakePath.fs.dirs.add(str(self))

    def touch(self, exist_ok: bool = True) -> None:  # noqa: ARG002
        FakePath.fs.files.setdefault(str(self), "")

    def open(self, mode: str = "r", encoding=None):  # noqa: ARG002
        return _FakeFile(FakePath.fs, str(self), mode)

    def exists(self) -> bool:
        return str(self) in FakePath.fs.files or str(self) in FakePath.fs.dirs


def install_fake_fs() -> FakeFS:
    """Rebind `Path` in the two generator modules (from the harness; /repo is not modified)."""
    fs = FakeFS()
    FakePath.fs = fs
    GS.Path = FakePath
    SG.Path = FakePath
    return fs


def generate(api: API, convert: bool, out: str = "/out", generator=None):
    """Run the real generator end to end on a stubbed file system.

    Returns (fs, stubs_data, generator): fs.files maps path -> final text.
    """
    fs = install_fake_fs()
    gen = generator if generator is not None else SG.StubsStringGenerator(api=api, convert_identifiers=convert)
    out_path = FakePath(out)
    data = GS.generate_stub_data(gen, out_path)
    GS.create_stub_files(gen, data, out_path)
    return fs, data, gen


def module_text(api: API, module: Module, convert: bool) -> str:
    gen = SG.StubsStringGenerator(api=api, convert_identifiers=convert)
    return gen(module)[0]
