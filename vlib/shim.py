"""Pure-Python shim of the mypy node/type classes (DESIGN.md 3.3): the mypy AST as a nondeterministic environment.

mypy 1.20.2 is mypyc-compiled: its classes cannot be subclassed and their attributes are type-checked, so no symbolic
value can live inside a real node.  The shim mirrors, by introspection of the INSTALLED mypy, the names and the
subclass relations of every class in mypy.nodes / mypy.types; instances are plain objects whose attributes the
builders below fill the way mypy does.  `install()` rebinds the names the repository's analyser modules use
(mp_nodes, mp_types, mypy_nodes, mypy_types, nodes, and the directly imported class names); /repo is not modified.

`convert(real_node)` copies a real mypy tree into shim objects (attribute whitelist scanned from the repository's
source), which is how builders are validated against the real mypy (vlib/shim_conformance.py).
"""
from __future__ import annotations

import ast
import enum
import inspect
import types

import mypy.nodes as RN
import mypy.types as RT

import safeds_stubgen.api_analyzer._ast_visitor as V
import safeds_stubgen.api_analyzer._ast_walker as W
import safeds_stubgen.api_analyzer._get_api as G
import safeds_stubgen.api_analyzer._mypy_helpers as H
import safeds_stubgen.docstring_parsing._helpers as DH

_shim_cls: dict = {}


def shim_of(real_cls):
    if real_cls in _shim_cls:
        return _shim_cls[real_cls]
    if real_cls is object:
        return object
    if isinstance(real_cls, type) and issubclass(real_cls, enum.Enum):
        _shim_cls[real_cls] = real_cls  # enums (ArgKind) are ordinary Python values
        return real_cls
    bases = tuple(shim_of(b) for b in real_cls.__bases__ if b.__module__.startswith("mypy")) or (object,)
    bases = tuple(dict.fromkeys(bases))
    c = type(real_cls.__name__, bases, {"__module__": "vlib.shim", "__real__": real_cls})
    _shim_cls[real_cls] = c
    return c


def _namespace(real_mod):
    ns = types.SimpleNamespace()
    for name in dir(real_mod):
        r = getattr(real_mod, name)
        if isinstance(r, type) and r.__module__.startswith("mypy"):
            setattr(ns, name, shim_of(r))
    return ns


N = _namespace(RN)  # shim of mypy.nodes
T = _namespace(RT)  # shim of mypy.types
T.TypeOfAny = RT.TypeOfAny
N.ArgKind = RN.ArgKind
ArgKind = RN.ArgKind
TypeOfAny = RT.TypeOfAny


def _type_str(self) -> str:
    """str() of a type, as far as the repository looks at it (it compares upper bounds with 'builtins.object')."""
    s = self.__dict__.get("_str")
    if s is not None:
        return s
    if isinstance(self, T.Instance):
        args = self.__dict__.get("args") or []
        return self.type.fullname + (f"[{', '.join(str(a) for a in args)}]" if args else "")
    if isinstance(self, T.NoneType):
        return "None"
    if isinstance(self, T.AnyType):
        return "Any"
    return type(self).__name__


for _c in list(_shim_cls.values()):
    if isinstance(_c, type) and "__real__" in _c.__dict__ and issubclass(_c.__dict__["__real__"], RT.Type):
        _c.__str__ = _type_str

_WALKER_NAMES = ["AssignmentStmt", "ClassDef", "Decorator", "FuncDef", "MypyFile", "OverloadedFuncDef"]


def install() -> None:
    V.mp_nodes = N
    V.mp_types = T
    H.mp_nodes = N
    H.mp_types = T
    H.ArgKind = RN.ArgKind
    for nm in _WALKER_NAMES:
        setattr(W, nm, getattr(N, nm))
    G.mypy_nodes = N
    G.mypy_types = T
    DH.nodes = N


def uninstall() -> None:
    V.mp_nodes = RN
    V.mp_types = RT
    H.mp_nodes = RN
    H.mp_types = RT
    for nm in _WALKER_NAMES:
        setattr(W, nm, getattr(RN, nm))
    G.mypy_nodes = RN
    G.mypy_types = RT
    DH.nodes = RN


def mk(cls, **attrs):
    o = cls.__new__(cls)
    o.__dict__.update(attrs)
    return o


# ------------------------------------------------------------------------------------------------------------- types
def type_info(fullname: str, bases=()):
    return mk(N.TypeInfo, name=fullname.split(".")[-1], fullname=fullname, bases=list(bases))


OBJECT = None


def instance(fullname: str, args=(), bases=()):
    return mk(T.Instance, type=type_info(fullname, bases), args=list(args))


def any_type(kind=RT.TypeOfAny.explicit, missing_import_name=None):
    return mk(T.AnyType, type_of_any=kind, missing_import_name=missing_import_name)


def unannotated():
    return any_type(RT.TypeOfAny.unannotated)


def none_type():
    return mk(T.NoneType)


def union(items):
    return mk(T.UnionType, items=list(items))


def tuple_type(items):
    return mk(T.TupleType, items=list(items), partial_fallback=instance("builtins.tuple"))


def literal(value):
    fb = {bool: "builtins.bool", int: "builtins.int", str: "builtins.str"}[type(value)]
    return mk(T.LiteralType, value=value, fallback=instance(fb))


def callable_type(arg_types, ret_type):
    return mk(T.CallableType, arg_types=list(arg_types), ret_type=ret_type)


def type_var(name: str, upper_bound=None):
    return mk(T.TypeVarType, name=name, upper_bound=upper_bound or instance("builtins.object"), values=[], variance=0)


def unbound(name: str, args=()):
    return mk(T.UnboundType, name=name, args=list(args))


# ------------------------------------------------------------------------------------------------------- expressions
def int_expr(v):
    return mk(N.IntExpr, value=v)


def float_expr(v):
    return mk(N.FloatExpr, value=v)


def str_expr(v):
    return mk(N.StrExpr, value=v)


def self_expr(name: str = "self"):
    """The receiver as mypy sees it inside a method: a NameExpr whose node is the Var of the first argument (is_self)."""
    return name_expr(name, name, node=var(name, None, is_self=True))


def name_expr(name: str, fullname: str | None = None, node=None):
    return mk(N.NameExpr, name=name, fullname=fullname if fullname is not None else name, node=node)


def member_expr(name: str, expr=None, node=None, fullname=""):
    return mk(N.MemberExpr, name=name, expr=expr, node=node, fullname=fullname, def_var=node)


def unary(op: str, expr):
    return mk(N.UnaryExpr, op=op, expr=expr)


def tuple_expr(items):
    return mk(N.TupleExpr, items=list(items))


def list_expr(items):
    return mk(N.ListExpr, items=list(items))


def call_expr(callee=None, args=()):
    return mk(N.CallExpr, callee=callee or name_expr("g", "pkg.m.g"), args=list(args))


def op_expr(op: str, left, right):
    return mk(N.OpExpr, op=op, left=left, right=right)


def conditional(if_expr, else_expr, cond=None):
    return mk(N.ConditionalExpr, cond=cond or name_expr("c", "c"), if_expr=if_expr, else_expr=else_expr)


# -------------------------------------------------------------------------------------------------------- statements
def block(stmts):
    return mk(N.Block, body=list(stmts))


def return_stmt(expr):
    return mk(N.ReturnStmt, expr=expr)


def expr_stmt(expr):
    return mk(N.ExpressionStmt, expr=expr)


def pass_stmt():
    return mk(N.PassStmt)


def if_stmt(bodies, else_body=None):
    """bodies: list of statement lists (if / elif ...); mypy nests elif as an IfStmt inside else_body."""
    return mk(N.IfStmt, expr=[name_expr("c", "c") for _ in bodies], body=[block(b) for b in bodies],
              else_body=block(else_body) if else_body is not None else None)


def try_stmt(body, handlers=(), else_body=None, finally_body=None):
    return mk(N.TryStmt, body=block(body), handlers=[block(h) for h in handlers], types=[None for _ in handlers],
              vars=[None for _ in handlers], else_body=block(else_body) if else_body is not None else None,
              finally_body=block(finally_body) if finally_body is not None else None)


def while_stmt(body, else_body=None):
    return mk(N.WhileStmt, expr=name_expr("c", "c"), body=block(body), else_body=block(else_body) if else_body is not None else None)


def for_stmt(body, else_body=None):
    return mk(N.ForStmt, index=name_expr("i", "i"), expr=name_expr("xs", "xs"), body=block(body),
              else_body=block(else_body) if else_body is not None else None)


def with_stmt(body):
    return mk(N.WithStmt, expr=[name_expr("cm", "cm")], target=[None], body=block(body))


def match_stmt(bodies):
    return mk(N.MatchStmt, subject=name_expr("s", "s"), patterns=[None for _ in bodies], guards=[None for _ in bodies],
              bodies=[block(b) for b in bodies])


# ------------------------------------------------------------------------------------------------------ definitions
def var(name: str, type_=None, fullname: str | None = None, is_self=False, is_cls=False, is_inferred=False,
        explicit_self_type=False):
    return mk(N.Var, name=name, _fullname=fullname or name, fullname=fullname or name, type=type_, is_self=is_self,
              is_cls=is_cls, is_inferred=is_inferred, explicit_self_type=explicit_self_type)


def argument(name: str, kind=RN.ArgKind.ARG_POS, annotation=None, initializer=None, pos_only=False, is_self=False,
             is_cls=False, var_type=None):
    """annotation: the analysed shim type of the annotation, or None for an un-annotated argument. mypy gives an
    un-annotated argument the variable type Any(unannotated) and type_annotation None; *args: T has variable type
    tuple[T, ...], **kwargs: T has dict[str, T] (type_annotation stays T)."""
    if var_type is None:
        if annotation is None:
            var_type = unannotated()
        elif kind == RN.ArgKind.ARG_STAR:
            var_type = instance("builtins.tuple", [annotation])
        elif kind == RN.ArgKind.ARG_STAR2:
            var_type = instance("builtins.dict", [instance("builtins.str"), annotation])
        else:
            var_type = annotation
    return mk(N.Argument, variable=var(name, var_type, is_self=is_self, is_cls=is_cls), type_annotation=annotation,
              initializer=initializer, kind=kind, pos_only=pos_only)


def func_def(name: str, fullname: str, arguments=(), ret=None, body=(), is_static=False, is_class=False,
             is_property=False, unanalyzed_ret=None, annotated=True):
    """ret: analysed return type (shim) or None. An un-annotated function has type None when it has no annotation at
    all; if only some arguments are annotated mypy builds a CallableType whose ret_type is Any(unannotated)."""
    arguments = list(arguments)
    if annotated:
        rt = ret if ret is not None else unannotated()
        ftype = mk(T.CallableType, arg_types=[a.variable.type for a in arguments], ret_type=rt)
        un = mk(T.CallableType, arg_types=[a.type_annotation for a in arguments],
                ret_type=unanalyzed_ret if unanalyzed_ret is not None else (rt if ret is not None else unannotated()))
    else:
        ftype, un = None, None
    return mk(N.FuncDef, name=name, _fullname=fullname, fullname=fullname, arguments=arguments, type=ftype,
              unanalyzed_type=un, body=block(body), is_static=is_static, is_class=is_class, is_property=is_property,
              is_overload=False, is_decorated=False)


def decorator(func, decorators=()):
    func.__dict__["is_decorated"] = True
    return mk(N.Decorator, func=func, decorators=list(decorators), name=func.name, fullname=func.fullname)


def overloaded(items, impl=None):
    name = (impl or items[0].func).name
    return mk(N.OverloadedFuncDef, items=list(items), impl=impl, name=name, fullname=(impl or items[0].func).fullname)


def assignment(lvalues, rvalue=None, unanalyzed_type=None):
    return mk(N.AssignmentStmt, lvalues=list(lvalues), rvalue=rvalue or int_expr(0), unanalyzed_type=unanalyzed_type, type=None)


def class_def(name: str, fullname: str, body=(), bases=(), removed_bases=(), info_bases=()):
    """bases: base_type_exprs (NameExpr with node TypeInfo / fullname), removed_bases: e.g. Generic[T] index expressions."""
    return mk(N.ClassDef, name=name, fullname=fullname, defs=block(body), base_type_exprs=list(bases),
              removed_base_type_exprs=list(removed_bases), info=type_info(fullname, info_bases))


def star_expr(expr):
    return mk(N.StarExpr, expr=expr, valid=True)


def index_expr(base, index):
    return mk(N.IndexExpr, base=base, index=index, analyzed=None, method_type=None)


def base_expr(fullname: str, info_bases=()):
    return name_expr(fullname.split(".")[-1], fullname, node=type_info(fullname, info_bases))


def mypy_file(fullname: str, path: str, defs=(), imports=()):
    return mk(N.MypyFile, _fullname=fullname, fullname=fullname, name=fullname.split(".")[-1], path=path, defs=list(defs),
              imports=list(imports))


def import_from(id_: str, names):
    return mk(N.ImportFrom, id=id_, names=list(names), relative=0)


def import_(ids):
    return mk(N.Import, ids=list(ids))


def import_all(id_: str):
    return mk(N.ImportAll, id=id_, relative=0)


# ----------------------------------------------------------------------------------------------- real -> shim converter
def scanned_attributes() -> set[str]:
    """Every attribute name the repository's analyser modules read (regenerated from the current source)."""
    names: set[str] = set()
    for mod in (V, H, W, G, DH):
        tree = ast.parse(inspect.getsource(mod))
        for n in ast.walk(tree):
            if isinstance(n, ast.Attribute):
                names.add(n.attr)
            if isinstance(n, ast.Call) and isinstance(n.func, ast.Name) and n.func.id in {"getattr", "hasattr"} \
                    and len(n.args) >= 2 and isinstance(n.args[1], ast.Constant):
                names.add(n.args[1].value)
    return {a for a in names if not a.startswith("__")}


class Converter:
    def __init__(self) -> None:
        self.attrs = scanned_attributes()
        self.seen: dict[int, object] = {}

    def conv(self, x):
        if isinstance(x, (str, int, float, bool, type(None), bytes, enum.Enum)):
            return x
        if isinstance(x, list):
            return [self.conv(i) for i in x]
        if isinstance(x, tuple):
            return tuple(self.conv(i) for i in x)
        if isinstance(x, (dict, set)):
            return x  # symbol tables etc.: not read by the repository
        if not type(x).__module__.startswith("mypy"):
            return x
        if id(x) in self.seen:
            return self.seen[id(x)]
        c = shim_of(type(x))
        o = c.__new__(c)
        self.seen[id(x)] = o
        for a in self.attrs:
            try:
                v = getattr(x, a)
            except Exception:  # noqa: BLE001
                continue
            if callable(v) and not isinstance(v, type):
                continue
            o.__dict__[a] = self.conv(v)
        if isinstance(x, RT.Type):
            o.__dict__["_str"] = str(x)
        return o
