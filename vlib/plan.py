"""Sub-check descriptors used by props/*.py and the driver."""
from __future__ import annotations

from dataclasses import dataclass, field


@dataclass
class CH:
    id: str
    module: str
    func: str
    partitions: list[str] = field(default_factory=lambda: [""])
    timeout: float = 60.0
    per_path: float | None = None
    desc: str = ""
    bounds: str = ""
    symbolic: str = ""  # which inputs stay symbolic values (vs. shape selectors)
    stubs: list[str] = field(default_factory=list)
    env: dict = field(default_factory=dict)
    # partitions are a cartesian product of selector values: combinations the decoder rejects outright are empty, not vacuous
    allow_empty: bool = False


@dataclass
class K:
    id: str
    module: str
    func: str
    desc: str = ""
    timeout: float = 600.0
    env: dict = field(default_factory=dict)


