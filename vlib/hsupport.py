"""Support code imported by CrossHair harness modules (runs under symbolic tracing: keep it trivial)."""
from __future__ import annotations

import collections
import os

# Partition selector: "0:2,1:1" fixes sel[0] == 2 and sel[1] == 1 (set by the driver per sub-process).
FIXED: list[tuple[int, int]] = []
_env = os.environ.get("VERIF_FIX", "")
if _env:
    FIXED = [(int(a), int(b)) for a, b in (p.split(":") for p in _env.split(","))]

# Tier-dependent bounds are read by harness modules at import time.
TIER = os.environ.get("VERIF_TIER", "quick")
THOROUGH = TIER == "thorough"

# Per-path counters (each CrossHair path executes the harness body once, concretely or symbolically).
STATS: collections.Counter = collections.Counter()


def fixed(sel) -> bool:
    """Precondition conjunct: the selector vector lies in this process's partition."""
    for i, v in FIXED:
        if sel[i] != v:
            return False
    return True


def note(key: str) -> None:
    STATS[key] += 1


def in_range(sel, bounds) -> bool:
    """0 <= sel[i] < bounds[i] for all i (bounds is a concrete list)."""
    if len(sel) != len(bounds):
        return False
    for i in range(len(bounds)):
        if not (0 <= sel[i] < bounds[i]):
            return False
    return True


class RepoFailure(Exception):
    """Raised by harness code to flag a property violation with a message (instead of returning False)."""


class OutOfRange(Exception):
    """A selector read by a decoder lies outside its range: the harness returns True (input outside the grammar)."""
