"""Support code imported by CrossHair harness modules (runs under symbolic tracing: keep it trivial)."""
from __future__ import annotations

import collections
import os

# Partition selector: "0:2,1:1" fixes sel[0] == 2 and sel[1] == 1 (set by the driver per sub-process).
FIXED: list[tuple[int, int]] = []
_env = os.environ.get("VERIF_FIX", "")
if _env:
    FIXED = [(int(a), int(b)) for a, b in (p.split(":") for p in _env.split(","))]

# Tier-dependent bounds are read by harness modules at import time.
TIER = os.environ.get("VERIF_TIER", "quick")
THOROUGH = TIER == "thorough"

# Per-path counters (each CrossHair path executes the harness body once, concretely or symbolically).
STATS: collections.Counter = collections.Counter()


def fixed(sel) -> bool:
    """Precondition conjunct: the selector vector lies in this process's partition."""
    for i, v in FIXED:
        if sel[i] != v:
            return False
    return True


def note(key: str) -> None:
    STATS[key] += 1


def in_range(sel, bounds) -> bool:
    """0 <= sel[i] < bounds[i] for all i (bounds is a concrete list)."""
    if len(sel) != len(bounds):
        return False
    for i in range(len(bounds)):
        if not (0 <= sel[i] < bounds[i]):
            return False
    return True


class RepoFailure(Exception):
    """Raised by harness code to flag a property violation with a message (instead of returning False)."""


class OutOfRange(Exception):
    """A selector read by a decoder lies outside its range: the harness returns True (input outside the grammar)."""


# ---------------------------------------------------------------------------------------------- known findings (engine C)
def _accepted() -> set:
    import json
    import pathlib

    if os.environ.get("VERIF_KF_OFF") == "1":
        return set()
    try:
        kf = json.loads((pathlib.Path(__file__).resolve().parents[1] / "known_findings.json").read_text())
    except OSError:
        return set()
    return {f["label"] for f in kf.get("findings", []) if f.get("engine") == "C"}


ACCEPTED = _accepted()


def judge(labels) -> bool:
    """labels: the violated clauses found on this input, each a stable label ('<clause>:<site or input class>').
    Labels listed in known_findings.json are accepted (reported once as KNOWN-FINDING by the driver); any other label
    is a violation: raised as RepoFailure so that the label shows in the counterexample and in the native replay."""
    rest = sorted({l for l in labels if l not in ACCEPTED})
    if rest:
        raise RepoFailure("; ".join(rest))
    return True


class untraced:
    """Run the oracle without CrossHair's bytecode tracing (no-op outside CrossHair). Only for oracle code whose
    inputs are concrete on every path; the code under test is always traced."""

    def __enter__(self):
        self.cm = None
        try:
            from crosshair.tracers import NoTracing, is_tracing

            if is_tracing():
                self.cm = NoTracing()
                self.cm.__enter__()
        except ImportError:
            pass
        return self

    def __exit__(self, *a):
        if self.cm is not None:
            self.cm.__exit__(*a)
        return False
