"""Engine K evaluator: walks the AST of a real function (inspect.getsource at check time) and builds ONE path-merged
z3 term for its result.  `if` on a symbolic condition evaluates both branches and merges with ite; `return` under a
guard is recorded as (guard, value); `raise` and failing index operations are recorded as (guard, exception name), so
"never raises" is the assertion that every such guard is unsatisfiable.  Loops are unrolled completely (they iterate
over containers whose size is fixed by the string capacity); `while` gets an unwinding assertion.

Unsupported syntax raises Unsupported(node) - the caller must not report success in that case.
"""
from __future__ import annotations

import ast
import builtins
import enum
import inspect
import textwrap
import types

import z3

from .bstr import FALSE, TRUE, BStr, GList, I, _and, _if, _or, int_to_str, ite_str


class Unsupported(Exception):
    def __init__(self, node, why: str = "") -> None:
        desc = ast.dump(node)[:160] if isinstance(node, ast.AST) else repr(node)[:160]
        super().__init__(f"Engine K: unsupported construct {why}: {desc}")


class SymObj:
    """An object whose attributes are symbolic/concrete values; `cls` lets isinstance() work."""

    def __init__(self, cls=None, **attrs) -> None:
        self.__dict__["_cls"] = cls
        self.__dict__["_attrs"] = dict(attrs)

    def get(self, name):
        return self._attrs[name]

    def has(self, name) -> bool:
        return name in self._attrs


class Choice:
    """A guarded choice among concrete Python objects (e.g. enum members). Guards are mutually exclusive."""

    def __init__(self, alts) -> None:
        self.alts = [(g, o) for g, o in alts if not z3.is_false(g)]

    def eq(self, other):
        if isinstance(other, Choice):
            return _or(*[_and(g1, g2) for g1, o1 in self.alts for g2, o2 in other.alts if o1 == o2])
        return _or(*[g for g, o in self.alts if o == other])

    def map(self, fn, merge):
        out = None
        for g, o in reversed(self.alts):
            v = fn(o)
            out = v if out is None else merge(g, v, out)
        return out


class _Closure:
    def __init__(self, node, env, ev) -> None:
        self.node, self.env, self.ev = node, env, ev


class _Undefined:
    pass


UNDEF = _Undefined()


def is_sym(v) -> bool:
    if isinstance(v, (list, tuple)):
        return any(is_sym(x) for x in v)
    return z3.is_expr(v) or isinstance(v, (BStr, GList, SymObj, Choice))


class Ev:
    MAX_INLINE_DEPTH = 6

    def __init__(self, func=None, *, node=None, globs=None, while_unroll: int = 8, depth: int = 0) -> None:
        if func is not None:
            func = inspect.unwrap(func.__func__ if isinstance(func, (staticmethod, classmethod)) else func)
            src = textwrap.dedent(inspect.getsource(func))
            node = ast.parse(src).body[0]
            globs = func.__globals__
        self.node = node
        self.globs = globs or {}
        self.raises: list[tuple] = []  # (guard, exception class name)
        self.unwind: list = []  # guards under which a while loop is still running after the unroll bound
        self.rets: list[tuple] = []
        self.gstack = [TRUE]
        self.while_unroll = while_unroll
        self.depth = depth

    # ------------------------------------------------------------------------------------------------ public
    def call(self, *args, **kwargs):
        fn = self.node
        a = fn.args
        names = [x.arg for x in a.posonlyargs + a.args]
        env = dict(zip(names, args))
        defaults = a.defaults
        for nm, d in zip(reversed(names), reversed(defaults)):
            if nm not in env:
                env[nm] = self.expr(d, {})
        for kw in a.kwonlyargs:
            pass
        for nm, d in zip([k.arg for k in a.kwonlyargs], a.kw_defaults):
            if d is not None:
                env[nm] = self.expr(d, {})
        env.update(kwargs)
        return self.run_body(fn.body, env)

    def run_body(self, body, env):
        self.rets = []
        g_end = self.block(body, env, TRUE)
        if not z3.is_false(g_end):
            self.rets.append((g_end, None))
        val = None
        first = True
        for g, v in reversed(self.rets):
            if first:
                val, first = v, False
            else:
                val = self.merge(g, v, val)
        return val

    def raise_guard(self, *names):
        gs = [g for g, n in self.raises if not names or n in names]
        return _or(*gs)

    # ------------------------------------------------------------------------------------------------ helpers
    @property
    def g(self):
        return self.gstack[-1]

    def record_raise(self, cond, name: str) -> None:
        gd = _and(self.g, cond)
        if not z3.is_false(gd):
            self.raises.append((gd, name))

    def lift(self, v):
        if isinstance(v, str):
            return BStr.const(v)
        if isinstance(v, bool):
            return z3.BoolVal(v)
        if isinstance(v, int):
            return I(v)
        return v

    def truth(self, v):
        if isinstance(v, BStr):
            return v.ln > 0
        if isinstance(v, GList):
            return _or(*[g for g, _ in v.items])
        if z3.is_expr(v):
            return v if z3.is_bool(v) else v != 0
        if isinstance(v, Choice):
            return _or(*[g for g, o in v.alts if bool(o)])
        if isinstance(v, SymObj):
            return TRUE
        return z3.BoolVal(bool(v))

    def merge(self, c, a, b):
        if z3.is_true(c):
            return a
        if z3.is_false(c):
            return b
        if a is b:
            return a
        if a is UNDEF:
            return b
        if b is UNDEF:
            return a
        if not is_sym(a) and not is_sym(b):
            try:
                if type(a) is type(b) and a == b:
                    return a
            except Exception:  # noqa: BLE001
                pass
        if isinstance(a, (BStr, str)) and isinstance(b, (BStr, str)):
            return ite_str(c, self.lift(a), self.lift(b))
        if isinstance(a, (bool, z3.BoolRef)) and isinstance(b, (bool, z3.BoolRef)):
            return z3.If(c, self.lift(a), self.lift(b))
        if isinstance(a, (int, z3.ArithRef)) and isinstance(b, (int, z3.ArithRef)) and not isinstance(a, bool) and not isinstance(b, bool):
            return z3.If(c, self.lift(a), self.lift(b))
        if isinstance(a, GList) and isinstance(b, GList):
            n = max(len(a), len(b))
            xa = a.items + [(FALSE, BStr.const(""))] * (n - len(a))
            xb = b.items + [(FALSE, BStr.const(""))] * (n - len(b))
            return GList([(z3.If(c, g1, g2), self.merge(c, v1, v2)) for (g1, v1), (g2, v2) in zip(xa, xb)])
        if isinstance(a, (tuple, list)) and isinstance(b, (tuple, list)) and len(a) == len(b):
            return type(a)(self.merge(c, x, y) for x, y in zip(a, b))
        if isinstance(a, list) and isinstance(b, list):  # concrete lists of different length -> guarded list
            return self.merge(c, GList([(TRUE, x) for x in a]), GList([(TRUE, x) for x in b]))
        if isinstance(a, GList) and isinstance(b, list):
            return self.merge(c, a, GList([(TRUE, x) for x in b]))
        if isinstance(a, list) and isinstance(b, GList):
            return self.merge(c, GList([(TRUE, x) for x in a]), b)
        # distinct concrete objects -> Choice
        ca = a if isinstance(a, Choice) else Choice([(TRUE, a)])
        cb = b if isinstance(b, Choice) else Choice([(TRUE, b)])
        if all(not is_sym(o) for _, o in ca.alts + cb.alts):
            return Choice([(_and(c, g), o) for g, o in ca.alts] + [(_and(z3.Not(c), g), o) for g, o in cb.alts])
        raise Unsupported(None, f"cannot merge {type(a).__name__} with {type(b).__name__}")

    # ------------------------------------------------------------------------------------------------ statements
    def block(self, stmts, env, g):
        for s in stmts:
            if z3.is_false(g):
                break
            self.gstack.append(g)
            try:
                g = self.stmt(s, env, g)
            finally:
                self.gstack.pop()
        return g

    def assign(self, target, v, env) -> None:
        if isinstance(target, ast.Name):
            env[target.id] = v
        elif isinstance(target, (ast.Tuple, ast.List)):
            if isinstance(v, GList):
                raise Unsupported(target, "unpacking a guarded list")
            vals = list(v)
            if len(vals) != len(target.elts):
                raise Unsupported(target, "unpack arity")
            for t, x in zip(target.elts, vals):
                self.assign(t, x, env)
        elif isinstance(target, ast.Attribute):
            obj = self.expr(target.value, env)
            if isinstance(obj, SymObj):
                obj._attrs[target.attr] = v
            else:
                raise Unsupported(target, "attribute assignment on concrete object")
        else:
            raise Unsupported(target, "assignment target")

    def stmt(self, s, env, g):
        if isinstance(s, ast.Expr):
            if isinstance(s.value, ast.Constant):
                return g
            self.expr(s.value, env)  # evaluated for side effects (append / add / logging)
            return g
        if isinstance(s, ast.Pass):
            return g
        if isinstance(s, ast.Return):
            v = self.expr(s.value, env) if s.value is not None else None
            self.rets.append((g, v))
            return FALSE
        if isinstance(s, ast.Assign):
            v = self.expr(s.value, env)
            for t in s.targets:
                self.assign(t, v, env)
            return g
        if isinstance(s, ast.AnnAssign):
            if s.value is not None:
                self.assign(s.target, self.expr(s.value, env), env)
            return g
        if isinstance(s, ast.AugAssign):
            cur = self.expr(ast.Name(id=s.target.id, ctx=ast.Load()), env) if isinstance(s.target, ast.Name) else None
            if cur is None:
                raise Unsupported(s, "augmented assignment target")
            v = self.expr(s.value, env)
            env[s.target.id] = self.binop(s.op, cur, v, s)
            return g
        if isinstance(s, ast.If):
            cv = self.expr(s.test, env)
            c = z3.simplify(self.truth(cv))
            if z3.is_true(c):
                return self.block(s.body, env, g)
            if z3.is_false(c):
                return self.block(s.orelse, env, g)
            e1, e2 = dict(env), dict(env)
            g1 = self.block(s.body, e1, _and(g, c))
            g2 = self.block(s.orelse, e2, _and(g, z3.Not(c)))
            for k in set(e1) | set(e2):
                v1, v2 = e1.get(k, UNDEF), e2.get(k, UNDEF)
                env[k] = v1 if v1 is v2 else self.merge(c, v1, v2)
            return _or(g1, g2)
        if isinstance(s, ast.For):
            return self.for_(s, env, g)
        if isinstance(s, ast.While):
            return self.while_(s, env, g)
        if isinstance(s, ast.Raise):
            name = "Exception"
            if s.exc is not None:
                f = s.exc.func if isinstance(s.exc, ast.Call) else s.exc
                name = f.id if isinstance(f, ast.Name) else getattr(f, "attr", "Exception")
            self.raises.append((g, name))
            return FALSE
        if isinstance(s, ast.Try):
            return self.try_(s, env, g)
        if isinstance(s, ast.Match):
            return self.match_(s, env, g)
        if isinstance(s, ast.FunctionDef):
            env[s.name] = _Closure(s, env, self)
            return g
        if isinstance(s, ast.Continue):
            self._continue.append(g)
            return FALSE
        if isinstance(s, ast.Break):
            self._break.append(g)
            return FALSE
        if isinstance(s, ast.Assert):
            c = self.truth(self.expr(s.test, env))
            self.raises.append((_and(g, z3.Not(c)), "AssertionError"))
            return _and(g, c)
        raise Unsupported(s, "statement")

    _continue: list = []
    _break: list = []

    def iter_items(self, it, node):
        """-> list of (alive guard, value)"""
        if isinstance(it, GList):
            return it.items
        if isinstance(it, BStr):
            return [(it.ln > i, BStr(I(1), [it.ch[i]])) for i in range(it.cap)]
        if isinstance(it, (list, tuple, set, frozenset, dict, range, str)) or hasattr(it, "__iter__"):
            return [(TRUE, x) for x in it]
        raise Unsupported(node, "iteration over " + type(it).__name__)

    def _loop_body(self, s, env, e2, gi):
        saved_c, saved_b = self._continue, self._break
        self._continue, self._break = [], []
        try:
            gend = self.block(s.body, e2, gi)
            conts, brks = self._continue, self._break
        finally:
            self._continue, self._break = saved_c, saved_b
        # values outside the enclosing flow are don't-care, so the iteration guard itself is the merge condition
        for k in set(e2):
            if k not in env or e2[k] is not env[k]:
                env[k] = self.merge(gi, e2[k], env.get(k, UNDEF))
        return gend, conts, brks

    def for_(self, s, env, g):
        items = self.iter_items(self.expr(s.iter, env), s)
        active, broken = g, FALSE
        for alive, val in items:
            gi = z3.simplify(_and(active, alive))
            if z3.is_false(gi):
                continue
            e2 = dict(env)
            self.assign(s.target, val, e2)
            gend, conts, brks = self._loop_body(s, env, e2, gi)
            active = z3.simplify(_or(_and(active, z3.Not(alive)), gend, *conts))
            broken = _or(broken, *brks)
        if s.orelse:
            active = self.block(s.orelse, env, active)
        return _or(active, broken)

    def while_(self, s, env, g):
        active, exited, broken = g, FALSE, FALSE
        for _ in range(self.while_unroll):
            c = z3.simplify(self.truth(self.expr(s.test, env)))
            exited = _or(exited, _and(active, z3.Not(c)))
            gi = z3.simplify(_and(active, c))
            if z3.is_false(gi):
                active = FALSE
                break
            e2 = dict(env)
            gend, conts, brks = self._loop_body(s, env, e2, gi)
            active = z3.simplify(_or(gend, *conts))
            broken = _or(broken, *brks)
        else:
            c = self.truth(self.expr(s.test, env))
            self.unwind.append(_and(active, c))  # unwinding assertion: loop still running after the bound
            exited = _or(exited, _and(active, z3.Not(c)))
        if s.orelse:
            exited = self.block(s.orelse, env, exited)
        return _or(exited, broken)

    def try_(self, s, env, g):
        mark = len(self.raises)
        gend = self.block(s.body, env, g)
        caught_total = FALSE
        new = self.raises[mark:]
        del self.raises[mark:]
        remaining = []
        for h in s.handlers:
            names = None
            if h.type is not None:
                ts = h.type.elts if isinstance(h.type, ast.Tuple) else [h.type]
                names = {t.id if isinstance(t, ast.Name) else t.attr for t in ts}
            hit = [(gd, n) for gd, n in new if names is None or n in names or "Exception" in names or _is_subclass(n, names)]
            new = [x for x in new if x not in hit]
            hg = _or(*[gd for gd, _ in hit])
            if z3.is_false(hg):
                continue
            e2 = dict(env)
            if h.name:
                e2[h.name] = SymObj()
            hend = self.block(h.body, e2, hg)
            for k in set(e2):
                if k != h.name and (k not in env or e2[k] is not env[k]):
                    env[k] = self.merge(hg, e2[k], env.get(k, UNDEF))
            caught_total = _or(caught_total, hend)
        remaining = new
        self.raises.extend(remaining)
        after = _or(gend, caught_total)
        if s.orelse:
            raise Unsupported(s, "try/else")
        if s.finalbody:
            after = self.block(s.finalbody, env, after)
        return after

    def match_(self, s, env, g):
        subj = self.expr(s.subject, env)
        rest = g
        ends = []
        envs = []
        for case in s.cases:
            p = case.pattern
            if isinstance(p, ast.MatchValue):
                c = self.compare_eq(subj, self.expr(p.value, env))
            elif isinstance(p, ast.MatchSingleton):
                c = self.compare_eq(subj, p.value)
            elif isinstance(p, ast.MatchAs) and p.pattern is None:
                c = TRUE
            else:
                raise Unsupported(p, "match pattern")
            if case.guard is not None:
                raise Unsupported(case, "match guard")
            gc = z3.simplify(_and(rest, c))
            e2 = dict(env)
            ends.append((c, self.block(case.body, e2, gc), e2))
            rest = z3.simplify(_and(rest, z3.Not(c)))
            if z3.is_false(rest):
                break
        # merge environments from the last case backwards
        out_g = rest
        for c, gend, e2 in reversed(ends):
            for k in set(e2):
                if k not in env or e2[k] is not env[k]:
                    env[k] = self.merge(c, e2[k], env.get(k, UNDEF))
            out_g = _or(out_g, gend)
        return out_g

    # ------------------------------------------------------------------------------------------------ expressions
    def lookup(self, name, env, node):
        if name in env:
            return env[name]
        if name in self.globs:
            return self.globs[name]
        if hasattr(builtins, name):
            return getattr(builtins, name)
        raise Unsupported(node, f"unbound name {name}")

    def compare_eq(self, l, r):
        if isinstance(l, Choice):
            return l.eq(r)
        if isinstance(r, Choice):
            return r.eq(l)
        if isinstance(l, (BStr,)) or isinstance(r, (BStr,)):
            if isinstance(l, (BStr, str)) and isinstance(r, (BStr, str)):
                return self.lift(l).eq(self.lift(r))
            return FALSE  # a string never equals a non-string
        if z3.is_expr(l) or z3.is_expr(r):
            if isinstance(l, (str, type(None))) or isinstance(r, (str, type(None))):
                return FALSE
            ll, rr = self.lift(l), self.lift(r)
            if z3.is_bool(ll) != z3.is_bool(rr):
                ll = z3.If(ll, 1, 0) if z3.is_bool(ll) else ll
                rr = z3.If(rr, 1, 0) if z3.is_bool(rr) else rr
            return ll == rr
        if isinstance(l, GList) or isinstance(r, GList) or isinstance(l, SymObj) or isinstance(r, SymObj):
            raise Unsupported(None, "equality on guarded list / symbolic object")
        if isinstance(l, (tuple, list)) and isinstance(r, (tuple, list)) and any(is_sym(x) for x in (*l, *r)):
            if len(l) != len(r):
                return FALSE
            return _and(*[self.compare_eq(x, y) for x, y in zip(l, r)])
        return z3.BoolVal(bool(l == r))

    def contains(self, item, container, node):
        if isinstance(container, BStr) or (isinstance(container, str) and isinstance(item, BStr)):
            return self.lift(container).contains(self.lift(item))
        if isinstance(container, GList):
            return _or(*[_and(g, self.compare_eq(item, v)) for g, v in container.items])
        if isinstance(container, (set, frozenset, tuple, list, dict)):
            if not is_sym(item) and not any(is_sym(x) for x in container):
                return z3.BoolVal(item in container)
            return _or(*[self.compare_eq(item, v) for v in container])
        if isinstance(container, type) and issubclass(container, enum.Enum):
            return self.contains(item, list(container), node)
        raise Unsupported(node, f"'in' on {type(container).__name__}")

    def binop(self, op, l, r, node):
        if isinstance(op, ast.Add):
            if isinstance(l, (BStr, str)) and isinstance(r, (BStr, str)):
                if isinstance(l, str) and isinstance(r, str):
                    return l + r
                return self.lift(l).concat(self.lift(r))
            if isinstance(l, GList) or isinstance(r, GList):
                li = l.items if isinstance(l, GList) else [(TRUE, x) for x in l]
                ri = r.items if isinstance(r, GList) else [(TRUE, x) for x in r]
                return GList(li + ri)
            if is_sym(l) or is_sym(r):
                return self.lift(l) + self.lift(r)
            return l + r
        if isinstance(op, ast.Sub):
            return self.lift(l) - self.lift(r) if is_sym(l) or is_sym(r) else l - r
        if isinstance(op, ast.Mult):
            if is_sym(l) and is_sym(r):
                raise Unsupported(node, "symbolic * symbolic")
            return self.lift(l) * self.lift(r) if is_sym(l) or is_sym(r) else l * r
        if isinstance(op, ast.BitOr) and not is_sym(l) and not is_sym(r):
            return l | r
        raise Unsupported(node, "binary operator")

    def expr(self, e, env):  # noqa: C901, PLR0911, PLR0912
        if isinstance(e, ast.Constant):
            return e.value
        if isinstance(e, ast.Name):
            return self.lookup(e.id, env, e)
        if isinstance(e, ast.Attribute):
            return self.attr(self.expr(e.value, env), e.attr, e)
        if isinstance(e, ast.BoolOp):
            vals = []
            is_or = isinstance(e.op, ast.Or)
            # short-circuit: operand i is evaluated only under the guard that earlier operands did not decide
            gcur = self.g
            acc = None
            for sub in e.values:
                self.gstack.append(gcur)
                try:
                    v = self.expr(sub, env)
                finally:
                    self.gstack.pop()
                vals.append(v)
                t = z3.simplify(self.truth(v))
                gcur = _and(gcur, z3.Not(t) if is_or else t)
                if (is_or and z3.is_true(t)) or (not is_or and z3.is_false(t)):
                    break
            if all(isinstance(v, (bool, z3.BoolRef)) for v in vals):
                ts = [self.lift(v) for v in vals]
                return z3.simplify(_or(*ts) if is_or else _and(*ts))
            # value semantics
            out = vals[-1]
            for v in reversed(vals[:-1]):
                t = self.truth(v)
                out = self.merge(t, v, out) if is_or else self.merge(t, out, v)
            return out
        if isinstance(e, ast.UnaryOp):
            v = self.expr(e.operand, env)
            if isinstance(e.op, ast.Not):
                return z3.simplify(z3.Not(self.truth(v)))
            if isinstance(e.op, ast.USub):
                return -self.lift(v) if is_sym(v) else -v
            raise Unsupported(e, "unary operator")
        if isinstance(e, ast.Compare):
            left = self.expr(e.left, env)
            res = []
            for op, cn in zip(e.ops, e.comparators):
                right = self.expr(cn, env)
                res.append(self.cmp(op, left, right, e))
                left = right
            return z3.simplify(_and(*res))
        if isinstance(e, ast.BinOp):
            return self.binop(e.op, self.expr(e.left, env), self.expr(e.right, env), e)
        if isinstance(e, ast.IfExp):
            c = z3.simplify(self.truth(self.expr(e.test, env)))
            if z3.is_true(c):
                return self.expr(e.body, env)
            if z3.is_false(c):
                return self.expr(e.orelse, env)
            self.gstack.append(_and(self.g, c))
            a = self.expr(e.body, env)
            self.gstack[-1] = _and(self.gstack[-2], z3.Not(c))
            b = self.expr(e.orelse, env)
            self.gstack.pop()
            return self.merge(c, a, b)
        if isinstance(e, ast.JoinedStr):
            out = ""
            for p in e.values:
                if isinstance(p, ast.Constant):
                    v = p.value
                else:
                    v = self.expr(p.value, env)
                    if p.format_spec is not None or p.conversion not in (-1,):
                        raise Unsupported(p, "format spec")
                    v = self.to_str(v, p)
                out = self.binop(ast.Add(), out, v, e)
            return out
        if isinstance(e, (ast.Tuple, ast.List)):
            vals = [self.expr(x, env) for x in e.elts]
            return tuple(vals) if isinstance(e, ast.Tuple) else vals
        if isinstance(e, ast.Set):
            vals = [self.expr(x, env) for x in e.elts]
            return vals if any(is_sym(v) for v in vals) else set(vals)
        if isinstance(e, ast.Dict):
            return {self.expr(k, env): self.expr(v, env) for k, v in zip(e.keys, e.values)}
        if isinstance(e, ast.Subscript):
            return self.subscript(e, env)
        if isinstance(e, ast.Call):
            return self.call_(e, env)
        if isinstance(e, (ast.GeneratorExp, ast.ListComp)):
            return self.comprehension(e, env)
        raise Unsupported(e, "expression")

    def to_str(self, v, node):
        if isinstance(v, (BStr, str)):
            return v
        if isinstance(v, SymObj) and v.has("__str__"):
            return v.get("__str__")
        if z3.is_expr(v) and z3.is_int(v):
            return int_to_str(v)
        if isinstance(v, Choice):
            return v.map(lambda o: BStr.const(str(o)), self.merge)
        if not is_sym(v):
            return str(v)
        raise Unsupported(node, "str() of symbolic " + type(v).__name__)

    def cmp(self, op, l, r, node):
        if isinstance(op, ast.Eq):
            return self.compare_eq(l, r)
        if isinstance(op, ast.NotEq):
            return z3.Not(self.compare_eq(l, r))
        if isinstance(op, ast.In):
            return self.contains(l, r, node)
        if isinstance(op, ast.NotIn):
            return z3.Not(self.contains(l, r, node))
        if isinstance(op, (ast.Is, ast.IsNot)):
            if is_sym(l) and is_sym(r):
                raise Unsupported(node, "identity of two symbolic values")
            if isinstance(l, Choice) or isinstance(r, Choice):
                c = self.compare_eq(l, r)
            else:
                c = z3.BoolVal(l is r) if not (is_sym(l) or is_sym(r)) else FALSE
            return c if isinstance(op, ast.Is) else z3.Not(c)
        if is_sym(l) or is_sym(r):
            ll, rr = self.lift(l), self.lift(r)
            if isinstance(ll, BStr) or isinstance(rr, BStr):
                raise Unsupported(node, "ordering of strings")
            return {ast.Lt: ll < rr, ast.LtE: ll <= rr, ast.Gt: ll > rr, ast.GtE: ll >= rr}[type(op)]
        return z3.BoolVal({ast.Lt: l < r, ast.LtE: l <= r, ast.Gt: l > r, ast.GtE: l >= r}[type(op)])

    def attr(self, obj, name, node):
        if isinstance(obj, SymObj):
            if not obj.has(name):
                raise Unsupported(node, f"symbolic object has no attribute {name}")
            return obj.get(name)
        if isinstance(obj, Choice):
            return obj.map(lambda o: getattr(o, name), self.merge)
        if isinstance(obj, (BStr, GList)):
            return ("method", obj, name)
        if z3.is_expr(obj):
            raise Unsupported(node, "attribute of z3 value")
        return getattr(obj, name)

    def subscript(self, e, env):
        v = self.expr(e.value, env)
        if isinstance(e.slice, ast.Slice):
            lo = self.expr(e.slice.lower, env) if e.slice.lower else None
            hi = self.expr(e.slice.upper, env) if e.slice.upper else None
            if e.slice.step is not None:
                raise Unsupported(e, "slice step")
            if isinstance(v, (BStr, str)) and (is_sym(v) or is_sym(lo) or is_sym(hi)):
                return self.lift(v).pyslice(None if lo is None else self.lift(lo), None if hi is None else self.lift(hi))
            if isinstance(v, GList):
                if is_sym(lo) or is_sym(hi):
                    raise Unsupported(e, "symbolic slice of guarded list")
                if hi is None and (lo or 0) >= 0:
                    return GList(v.items[lo or 0:])
                if lo in (None, 0) and hi == -1:
                    return self.glist_drop_last(v)
                raise Unsupported(e, "slice of guarded list")
            return v[lo:hi]
        idx = self.expr(e.slice, env)
        if isinstance(v, BStr):
            i = self.lift(idx)
            i = z3.simplify(z3.If(i < 0, v.ln + i, i))
            self.record_raise(z3.Not(z3.And(i >= 0, i < v.ln)), "IndexError")
            return BStr(I(1), [v.at(i)])
        if isinstance(v, GList):
            if is_sym(idx):
                raise Unsupported(e, "symbolic index into guarded list")
            if idx >= 0:
                if idx >= len(v):
                    self.record_raise(TRUE, "IndexError")
                    return BStr.const("")
                g, val = v.items[idx]
                self.record_raise(z3.Not(g), "IndexError")
                return val
            if idx == -1:
                return self.glist_last(v)
            raise Unsupported(e, "negative index into guarded list")
        if isinstance(v, type) and issubclass(v, enum.Enum) and isinstance(idx, BStr):
            alts = [(idx.eq(BStr.const(m.name)), m) for m in v]
            self.record_raise(z3.Not(_or(*[g for g, _ in alts])), "KeyError")
            return Choice(alts)
        if is_sym(idx):
            if isinstance(v, (list, tuple)) and z3.is_expr(idx):
                out = None
                for k in reversed(range(len(v))):
                    out = v[k] if out is None else self.merge(idx == k, v[k], out)
                self.record_raise(z3.Not(z3.And(idx >= 0, idx < len(v))), "IndexError")
                return out
            raise Unsupported(e, "symbolic index")
        try:
            return v[idx]
        except (IndexError, KeyError) as ex:
            self.record_raise(TRUE, type(ex).__name__)
            return UNDEF

    def glist_last(self, v: GList):
        out = BStr.const("")
        any_ = FALSE
        for g, val in v.items:  # prefix-closed guards: the last present element wins
            out = self.merge(g, val, out)
            any_ = _or(any_, g)
        self.record_raise(z3.Not(any_), "IndexError")
        return out

    def glist_drop_last(self, v: GList) -> GList:
        items = []
        for i, (g, val) in enumerate(v.items):
            nxt = v.items[i + 1][0] if i + 1 < len(v.items) else FALSE
            items.append((z3.simplify(_and(g, nxt)), val))
        return GList(items)

    def comprehension(self, e, env):
        if len(e.generators) != 1:
            raise Unsupported(e, "nested comprehension")
        gen = e.generators[0]
        items = self.iter_items(self.expr(gen.iter, env), e)
        out = []
        for alive, val in items:
            e2 = dict(env)
            self.assign(gen.target, val, e2)
            cond = alive
            self.gstack.append(_and(self.g, cond))
            try:
                for c in gen.ifs:
                    cond = z3.simplify(_and(cond, self.truth(self.expr(c, e2))))
                    self.gstack[-1] = _and(self.gstack[-2], cond)
                if z3.is_false(cond):
                    continue
                out.append((cond, self.expr(e.elt, e2)))
            finally:
                self.gstack.pop()
        if all(z3.is_true(g) for g, _ in out):
            return [v for _, v in out]
        return GList(out)

    # ------------------------------------------------------------------------------------------------ calls
    def call_(self, e, env):  # noqa: C901, PLR0911, PLR0912
        f = self.expr(e.func, env)
        args = []
        for a in e.args:
            if isinstance(a, ast.Starred):
                raise Unsupported(e, "star args")
            args.append(self.expr(a, env))
        kwargs = {k.arg: self.expr(k.value, env) for k in e.keywords}
        if isinstance(f, tuple) and len(f) == 3 and f[0] == "method":
            return self.method(f[1], f[2], args, kwargs, e)
        if isinstance(f, _Closure):
            sub = Ev(node=f.node, globs=self.globs, while_unroll=self.while_unroll, depth=self.depth + 1)
            sub.gstack = [self.g]
            cenv = dict(f.env)
            names = [x.arg for x in f.node.args.args]
            for nm, d in zip(reversed(names), reversed(f.node.args.defaults)):
                cenv[nm] = sub.expr(d, {})
            cenv.update(dict(zip(names, args)))
            cenv.update(kwargs)
            r = sub.run_body(f.node.body, cenv)
            self.raises += [(_and(self.g, g), n) for g, n in sub.raises]
            self.unwind += sub.unwind
            return r
        # methods of concrete str receivers with symbolic arguments
        if isinstance(f, types.BuiltinMethodType) and isinstance(f.__self__, str) and any(is_sym(a) for a in args):
            return self.method(BStr.const(f.__self__), f.__name__, args, kwargs, e, recv_concrete=f.__self__)
        if f is len:
            v = args[0]
            if isinstance(v, BStr):
                return v.ln
            if isinstance(v, GList):
                return v.length()
            return len(v)
        if f is isinstance:
            obj, cls = args
            if isinstance(obj, SymObj):
                classes = cls if isinstance(cls, tuple) else (cls,)
                flat = []
                for c in classes:
                    flat += list(getattr(c, "__args__", (c,)))
                return z3.BoolVal(obj._cls is not None and any(issubclass(obj._cls, c) for c in flat))
            if isinstance(obj, BStr):
                return z3.BoolVal(cls is str or (isinstance(cls, tuple) and str in cls))
            if z3.is_expr(obj):
                want = bool if z3.is_bool(obj) else int
                return z3.BoolVal(want is cls or (isinstance(cls, tuple) and want in cls))
            if isinstance(obj, Choice):
                return _or(*[g for g, o in obj.alts if isinstance(o, cls)])
            return z3.BoolVal(isinstance(obj, cls))
        if f is str:
            return self.to_str(args[0], e) if args else ""
        if f is bool:
            return self.truth(args[0])
        if f is enumerate:
            items = self.iter_items(args[0], e)
            if all(z3.is_true(g) for g, _ in items):
                return [(i, v) for i, (_, v) in enumerate(items)]
            return GList([(g, (i, v)) for i, (g, v) in enumerate(items)])
        if f is getattr:
            obj, name = args[0], args[1]
            if isinstance(obj, SymObj):
                return obj.get(name) if obj.has(name) else (args[2] if len(args) > 2 else self._noattr(e))
            return getattr(obj, name, *args[2:])
        if f is hasattr:
            obj, name = args
            return z3.BoolVal(obj.has(name) if isinstance(obj, SymObj) else hasattr(obj, name))
        if f in (list, tuple) and args and isinstance(args[0], (GList, list, tuple)):
            return args[0] if isinstance(args[0], GList) else f(args[0])
        if f is set and not args:
            return []
        if f in (any, all) and isinstance(args[0], (GList, list, tuple)):
            items = args[0].items if isinstance(args[0], GList) else [(TRUE, v) for v in args[0]]
            if f is any:
                return _or(*[_and(g, self.truth(v)) for g, v in items])
            return _and(*[z3.Or(z3.Not(g), self.truth(v)) for g, v in items])
        if isinstance(f, types.ModuleType):
            raise Unsupported(e, "call of module")
        # logging etc.: empty body
        mod = getattr(f, "__module__", "") or ""
        if mod.startswith("logging") or (isinstance(f, types.MethodType) and (getattr(f.__self__, "__name__", "") == "logging")):
            return None
        if getattr(f, "_ek_stub", False):  # a harness-provided stub for a callee (listed in the evidence)
            return f(*args, **kwargs)
        # repository function with symbolic arguments -> inline
        if any(is_sym(a) for a in list(args) + list(kwargs.values())):
            target = f.__func__ if isinstance(f, (staticmethod, classmethod, types.MethodType)) else f
            if isinstance(target, types.FunctionType) and (target.__module__ or "").startswith("safeds_stubgen"):
                if self.depth >= self.MAX_INLINE_DEPTH:
                    raise Unsupported(e, "inline depth")
                sub = Ev(target, while_unroll=self.while_unroll, depth=self.depth + 1)
                sub.gstack = [self.g]
                r = sub.call(*args, **kwargs)
                self.raises += [(_and(self.g, g), n) for g, n in sub.raises]
                self.unwind += sub.unwind
                return r
            raise Unsupported(e, f"call of {getattr(f, '__name__', f)!r} with symbolic arguments")
        try:
            return f(*args, **kwargs)
        except Exception as ex:  # noqa: BLE001
            self.record_raise(TRUE, type(ex).__name__)
            return UNDEF

    def _noattr(self, node):
        self.record_raise(TRUE, "AttributeError")
        return UNDEF

    def method(self, recv, m, args, kwargs, node, recv_concrete=None):  # noqa: C901, PLR0911
        if isinstance(recv, GList):
            if m == "append":
                recv.items.append((self.g if not z3.is_true(self.g) else TRUE, args[0]))
                return None
            if m == "pop" and args == [-1]:
                last = self.glist_last(recv)
                recv.items[:] = self.glist_drop_last(recv).items
                return last
            raise Unsupported(node, f"list.{m}")
        s: BStr = recv
        if m == "join":
            it = args[0]
            items = it if isinstance(it, GList) else GList([(TRUE, v) for v in it])
            return items.join(s)
        if m in ("startswith", "endswith"):
            p = args[0]
            if isinstance(p, tuple):
                return _or(*[getattr(s, m)(self.lift(x)) for x in p])
            return getattr(s, m)(self.lift(p))
        if m in ("lstrip", "rstrip", "strip"):
            if not args:
                raise Unsupported(node, "whitespace strip")
            return getattr(s, m)(args[0])
        if m == "split":
            if len(args) != 1 or not isinstance(args[0], str) or len(args[0]) != 1:
                raise Unsupported(node, "split separator")
            return s.split(args[0])
        if m == "upper":
            return s.upper()
        if m == "lower":
            return s.lower()
        if m == "replace":
            if len(args) == 3 and args[2] == 1 and isinstance(args[0], str) and isinstance(args[1], str):
                return s.replace_first(args[0], args[1])
            a, b = args
            if isinstance(a, str) and isinstance(b, str):
                if len(a) == 1 and len(b) == 1:
                    return s.replace_char(ord(a), ord(b))
                return s.replace(a, b)
            raise Unsupported(node, "replace with symbolic pattern")
        if m == "isidentifier" or m == "isdigit":
            raise Unsupported(node, m)
        raise Unsupported(node, f"str.{m}")


def _is_subclass(name: str, names) -> bool:
    cls = getattr(builtins, name, None)
    if cls is None:
        return False
    for n in names:
        base = getattr(builtins, n, None)
        if isinstance(base, type) and isinstance(cls, type) and issubclass(cls, base):
            return True
    return False


def find_nodes(func, pred):
    """AST nodes of func's current source satisfying pred (used to locate expressions by pattern, not by line)."""
    func = inspect.unwrap(func.__func__ if isinstance(func, (staticmethod, classmethod)) else func)
    tree = ast.parse(textwrap.dedent(inspect.getsource(func)))
    return [n for n in ast.walk(tree) if pred(n)]
