"""Differential test of the BStr library against CPython (run: python -m vlib.ek.selftest)."""
import random
import sys

import z3

from .bstr import BStr, GList, int_to_str
from .job import concrete

rng = random.Random(int(sys.argv[1]) if len(sys.argv) > 1 else 0)
AL = "ab_.A9 \n/*"


def rs(n=6):
    return "".join(rng.choice(AL) for _ in range(rng.randint(0, n)))


bad = 0
N = int(sys.argv[2]) if len(sys.argv) > 2 else 150
for _ in range(N):
    a, b = rs(), rs(3)
    A, B = BStr.const(a), BStr.const(b)
    i, j = rng.randint(-7, 7), rng.randint(-7, 7)
    c = rng.choice(AL)
    checks = {
        "eq": (concrete(A.eq(B)), a == b),
        "concat": (concrete(A.concat(B)), a + b),
        "slice": (concrete(A.pyslice(z3.IntVal(i), z3.IntVal(j))), a[i:j]),
        "slice_lo": (concrete(A.pyslice(z3.IntVal(i), None)), a[i:]),
        "slice_hi": (concrete(A.pyslice(None, z3.IntVal(j))), a[:j]),
        "startswith": (concrete(A.startswith(B)), a.startswith(b)),
        "endswith": (concrete(A.endswith(B)), a.endswith(b)),
        "contains": (concrete(A.contains(B)), b in a),
        "lstrip": (concrete(A.lstrip(c)), a.lstrip(c)),
        "rstrip": (concrete(A.rstrip(c + "a")), a.rstrip(c + "a")),
        "strip": (concrete(A.strip("_\n")), a.strip("_\n")),
        "lstrip_sym": (concrete(A.lstrip(B)), a.lstrip(b)) if b else (1, 1),
        "upper": (concrete(A.upper()), a.upper()),
        "lower": (concrete(A.lower()), a.lower()),
        "replace_char": (concrete(A.replace_char(ord(c), ord("X"))), a.replace(c, "X")),
        "replace2": (concrete(A.replace("ab", "X")), a.replace("ab", "X")),
        "replace3": (concrete(A.replace("a", "//")), a.replace("a", "//")),
        "replace4": (concrete(A.replace("aa", "b")), a.replace("aa", "b")),
        "count": (concrete(A.count_char(ord(c))), a.count(c)),
    }
    parts = A.split(c)
    got = [concrete(v) for g, v in parts.items if concrete(g)]
    checks["split"] = (got, a.split(c))
    checks["join"] = (concrete(parts.join(BStr.const("--"))), "--".join(a.split(c)))
    n = rng.randint(-9999, 9999)
    checks["int_to_str"] = (concrete(int_to_str(z3.IntVal(n))), str(n))
    for k, (g, w) in checks.items():
        if g != w:
            bad += 1
            print("MISMATCH", k, repr(a), repr(b), i, j, repr(c), "->", repr(g), "!=", repr(w))
print("bstr selftest:", N, "rounds,", bad, "mismatches")
sys.exit(1 if bad else 0)
