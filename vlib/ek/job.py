"""Engine K job helper: queries with vacuity check, known-finding regions, native replay and cvc5 cross-check."""
from __future__ import annotations

import json
import os
import random
import time
from pathlib import Path

import z3

from .bstr import BStr, show

TIER = os.environ.get("VERIF_TIER", "quick")
THOROUGH = TIER == "thorough"
SEED = int(os.environ.get("VERIF_SEED", "0"))
KF_FILE = Path(__file__).resolve().parents[2] / "known_findings.json"


def known_regions(prop: str) -> dict[str, dict]:
    """Regions listed (accepted) in known_findings.json for Engine-K queries of this property: region name -> entry."""
    try:
        kf = json.loads(KF_FILE.read_text())
    except FileNotFoundError:
        return {}
    return {f["region"]: f for f in kf.get("findings", []) if (f["property"] == prop or prop in f.get("also", [])) and f.get("engine") == "K"}


class KJob:
    def __init__(self, prop: str, timeout_ms: int | None = None) -> None:
        self.prop = prop
        self.queries: list[dict] = []
        self.validation = {"samples": 0, "mismatches": 0, "details": []}
        self.timeout_ms = timeout_ms or (600_000 if THOROUGH else 120_000)
        self.kf = known_regions(prop)
        self.rng = random.Random(SEED)

    # ---------------------------------------------------------------------------------------------- deciding
    def _check(self, constraints, timeout_ms=None):
        s = z3.Solver()
        s.set("timeout", timeout_ms or self.timeout_ms)
        s.add(*constraints)
        t = time.time()
        r = s.check()
        return str(r), (s.model() if r == z3.sat else None), time.time() - t, s

    def _cvc5(self, solver: z3.Solver, limit_ms: int = 300_000) -> str:
        """Re-decide the same query with cvc5 (Python wheel). Returns sat/unsat/unknown/error:<msg>."""
        try:
            import cvc5

            smt = "(set-logic ALL)\n" + solver.to_smt2()
            tm = cvc5.TermManager() if hasattr(cvc5, "TermManager") else None
            slv = cvc5.Solver(tm) if tm is not None else cvc5.Solver()
            slv.setOption("tlimit-per", str(limit_ms))
            parser = cvc5.InputParser(slv)
            parser.setStringInput(cvc5.InputLanguage.SMT_LIB_2_6, smt, "q")
            sm = parser.getSymbolManager()
            res = "unknown"
            while True:
                cmd = parser.nextCommand()
                if cmd.isNull():
                    break
                out = cmd.invoke(slv, sm)
                o = str(out).strip()
                if o in ("sat", "unsat", "unknown"):
                    res = o
            return res
        except Exception as e:  # noqa: BLE001
            return f"error:{type(e).__name__}:{str(e)[:120]}"

    def prove(
        self,
        qid: str,
        assume: list,
        claim,
        *,
        decode,  # model -> dict of concrete inputs (JSON-able)
        replay,  # inputs dict -> (violates: bool, detail: str): runs the REAL function natively
        bound: str,
        regions: dict | None = None,  # name -> (z3 predicate over the inputs, description)
        side: list | None = None,  # capacity side conditions that must hold under `assume`
    ) -> None:
        regions = regions or {}
        q: dict = {"id": qid, "bound": bound, "solver": "z3 " + z3.get_version_string()}
        t0 = time.time()
        # 0. capacity side conditions (silent truncation would be unsound)
        if side:
            r, m, _, _ = self._check([*assume, z3.Not(z3.And(*side))])
            if r != "unsat":
                q.update(verdict="harness_error", detail=f"capacity side condition not proved ({r})", seconds=round(time.time() - t0, 2))
                self.queries.append(q)
                return
        # 1. vacuity: the assumptions alone must be satisfiable
        r, _, _, _ = self._check(assume, 60_000)
        if r != "sat":
            q.update(verdict="harness_error", detail=f"assumptions are {r} (vacuous query)", seconds=round(time.time() - t0, 2))
            self.queries.append(q)
            return
        # 2. listed known findings: is the region still violating? (printed as KNOWN-FINDING, never as VIOLATION)
        excluded = []
        for name, (pred, desc) in regions.items():
            if name not in self.kf:
                continue  # not an accepted finding: stays inside the search space
            excluded.append(pred)
            r, m, _, _ = self._check([*assume, pred, z3.Not(claim)], 60_000)
            if r == "sat":
                inp = decode(m)
                bad, detail = replay(inp)
                if bad:
                    self.queries.append({"id": f"{qid}#{name}", "verdict": "known", "known_id": self.kf[name]["id"],
                                         "detail": f"{self.kf[name]['what']} (e.g. {inp}: {detail})", "cex": inp,
                                         "seconds": 0, "bound": bound})
        # 3. the query proper, outside the accepted regions
        cons = [*assume, *[z3.Not(p) for p in excluded], z3.Not(claim)]
        r, m, secs, solver = self._check(cons)
        q["seconds"] = round(secs, 2)
        q["regions_excluded"] = [n for n in regions if n in self.kf]
        if r == "unsat":
            q["verdict"] = "holds"
            if THOROUGH:
                c = self._cvc5(solver)
                q["cvc5"] = c
                if c == "sat":
                    q.update(verdict="harness_error", detail="z3 says unsat, cvc5 says sat")
        elif r == "sat":
            inp = decode(m)
            bad, detail = replay(inp)
            q["cex"] = inp
            if bad:
                q.update(verdict="violation", detail=detail, replay={"inputs": inp})
            else:
                q.update(verdict="harness_error", detail=f"model {inp} does not reproduce on the real function: {detail}")
        else:
            q.update(verdict="inconclusive", detail=f"solver returned {r} after {secs:.0f}s")
        self.queries.append(q)

    def reach(self, qid: str, constraints: list, *, decode, confirm, bound: str) -> None:
        """Reachability witness: `constraints` must be satisfiable and the decoded input must make the real code reach the
        same place (confirm(inputs) -> (reached, detail)); otherwise the queries that depend on it are vacuous."""
        t0 = time.time()
        r, m, _, _ = self._check(constraints, 60_000)
        q: dict = {"id": qid, "bound": bound, "solver": "z3 " + z3.get_version_string(), "seconds": round(time.time() - t0, 2)}
        if r != "sat":
            q.update(verdict="harness_error", detail=f"witness is {r}: the guarded code is never reached (vacuous)")
        else:
            inp = decode(m)
            ok, detail = confirm(inp)
            q["witness"] = inp
            if ok:
                q.update(verdict="holds", detail=f"reached, e.g. {inp}")
            else:
                q.update(verdict="harness_error", detail=f"witness {inp} does not reach the place natively: {detail}")
        self.queries.append(q)

    # ---------------------------------------------------------------------------------------------- validation
    def validate(self, name: str, encode, real, samples: list) -> None:
        """Translator validation: the encoding evaluated on concrete inputs must equal the real function.

        encode(*concrete_args) -> python value (the evaluator run on constants, simplified); real(*args) -> value.
        """
        for args in samples:
            self.validation["samples"] += 1
            try:
                want = real(*args)
            except Exception as e:  # noqa: BLE001
                want = f"raise {type(e).__name__}"
            got = encode(*args)
            if got != want:
                self.validation["mismatches"] += 1
                if len(self.validation["details"]) < 5:
                    self.validation["details"].append({"fn": name, "args": repr(args), "encoding": repr(got), "real": repr(want)})

    def result(self) -> dict:
        out = {"queries": self.queries, "validation": self.validation}
        if self.validation["mismatches"]:
            out["error"] = f"translator validation failed: {self.validation['details']}"
        return out


def concrete(v):
    """Evaluate an evaluator result that depends on no variables to a Python value."""
    import z3 as _z3

    if isinstance(v, BStr):
        s = _z3.Solver()
        s.check()
        return show(s.model(), v)
    if _z3.is_expr(v):
        x = _z3.simplify(v)
        if _z3.is_true(x):
            return True
        if _z3.is_false(x):
            return False
        if _z3.is_int_value(x):
            return x.as_long()
        s = _z3.Solver()
        s.check()
        x = s.model().eval(v, model_completion=True)
        return True if _z3.is_true(x) else False if _z3.is_false(x) else x.as_long()
    return v


# ------------------------------------------------------------------------------------------------ sensitivity self-test
def ast_mutants(func, limit: int = 8):
    """Small syntactic mutants of a function's current AST (flipped comparisons, or<->and, dropped strip calls, dropped
    table entries, negated conditions).  Used only to show that a query CAN fail: 'k of n mutants detected'."""
    import ast
    import copy
    import inspect
    import textwrap

    func = inspect.unwrap(func.__func__ if isinstance(func, (staticmethod, classmethod)) else func)
    tree = ast.parse(textwrap.dedent(inspect.getsource(func))).body[0]
    sites = []
    for i, nd in enumerate(ast.walk(tree)):
        if isinstance(nd, ast.Compare) and isinstance(nd.ops[0], (ast.Eq, ast.NotEq, ast.Lt, ast.Gt, ast.In, ast.NotIn)):
            sites.append((i, "cmp"))
        elif isinstance(nd, ast.BoolOp):
            sites.append((i, "bool"))
        elif isinstance(nd, ast.Call) and isinstance(nd.func, ast.Attribute) and nd.func.attr in ("lstrip", "rstrip", "upper", "endswith", "startswith"):
            sites.append((i, "call"))
        elif isinstance(nd, ast.Set) and len(nd.elts) > 2:
            sites.append((i, "set"))
        elif isinstance(nd, ast.UnaryOp) and isinstance(nd.op, ast.Not):
            sites.append((i, "not"))
    step = max(1, len(sites) // limit)
    for idx, kind in sites[::step][:limit]:
        t2 = copy.deepcopy(tree)
        nd = list(ast.walk(t2))[idx]
        if kind == "cmp":
            flip = {ast.Eq: ast.NotEq, ast.NotEq: ast.Eq, ast.Lt: ast.GtE, ast.Gt: ast.LtE, ast.In: ast.NotIn, ast.NotIn: ast.In}
            nd.ops[0] = flip[type(nd.ops[0])]()
        elif kind == "bool":
            nd.op = ast.And() if isinstance(nd.op, ast.Or) else ast.Or()
        elif kind == "call":
            if nd.func.attr in ("endswith", "startswith"):
                nd.func.attr = "startswith" if nd.func.attr == "endswith" else "endswith"
            else:
                recv = nd.func.value
                nd.func = ast.Name(id="str", ctx=ast.Load())
                nd.args = [recv]
        elif kind == "set":
            del nd.elts[len(nd.elts) // 2]
        else:
            nd.op = ast.UAdd()
        ast.fix_missing_locations(t2)
        yield kind, t2


def selftest(job: "KJob", qid: str, func, build) -> None:
    """build(node) -> (assumptions, claim) with the evaluator run on the given (mutated) function node.
    The query passes the self-test if at least one mutant makes it fail (sat)."""
    detected = total = 0
    for _kind, node in ast_mutants(func):
        try:
            assume, claim = build(node)
        except Exception:  # noqa: BLE001  (a mutant may leave the supported subset: not counted)
            continue
        total += 1
        r, _, _, _ = job._check([*assume, z3.Not(claim)], 60_000)
        detected += r == "sat"
    ok = total == 0 or detected >= 1
    job.queries.append({"id": f"{qid}#selftest", "verdict": "holds" if ok else "harness_error", "seconds": 0, "bound": "self-test",
                        "detail": f"{detected} of {total} syntactic mutants of the real AST make the query fail"})
