"""Bounded symbolic strings for Engine K: a z3 Int length plus `cap` z3 Int code points; every operation is an
ITE network over that representation (no z3 String theory).  Capacity is explicit: an operation whose result could
exceed the capacity of its result adds a side condition (`BStr.side`) that the caller must prove or assume.

All operations are differentially tested against CPython (vlib/ek/selftest.py).
"""
from __future__ import annotations

import z3

I = z3.IntVal
TRUE = z3.BoolVal(True)
FALSE = z3.BoolVal(False)


def _and(*xs):
    xs = [x for x in xs if not z3.is_true(x)]
    if any(z3.is_false(x) for x in xs):
        return FALSE
    if not xs:
        return TRUE
    return xs[0] if len(xs) == 1 else z3.And(*xs)


def _or(*xs):
    xs = [x for x in xs if not z3.is_false(x)]
    if any(z3.is_true(x) for x in xs):
        return TRUE
    if not xs:
        return FALSE
    return xs[0] if len(xs) == 1 else z3.Or(*xs)


def _if(c, a, b):
    if z3.is_true(c):
        return a
    if z3.is_false(c):
        return b
    if a is b:
        return a
    return z3.If(c, a, b)


class BStr:
    """Bounded string. Invariant (assumed for variables, preserved by operations): 0 <= ln <= cap."""

    def __init__(self, ln, ch) -> None:
        self.ln = ln if z3.is_expr(ln) else I(ln)
        self.ch = list(ch)

    @property
    def cap(self) -> int:
        return len(self.ch)

    # ------------------------------------------------------------------ constructors
    @staticmethod
    def const(s: str) -> "BStr":
        return BStr(I(len(s)), [I(ord(c)) for c in s])

    @staticmethod
    def var(name: str, cap: int) -> "BStr":
        return BStr(z3.Int(f"{name}_len"), [z3.Int(f"{name}_{i}") for i in range(cap)])

    def wf(self, alphabet=None, min_len: int = 0, max_len: int | None = None):
        """Well-formedness constraint for a variable: length range and alphabet (iterable of code points or predicate)."""
        max_len = self.cap if max_len is None else max_len
        cs = [self.ln >= min_len, self.ln <= max_len]
        for i in range(self.cap):
            if alphabet is None:
                ok = z3.And(self.ch[i] >= 0, self.ch[i] < 128)
            elif callable(alphabet):
                ok = alphabet(self.ch[i])
            else:
                ok = z3.Or(*[self.ch[i] == a for a in alphabet])
            cs.append(z3.Or(self.ln <= i, ok))
        return z3.And(*cs)

    def is_const(self) -> bool:
        return z3.is_int_value(z3.simplify(self.ln)) and all(
            z3.is_int_value(z3.simplify(c)) for c in self.ch[: z3.simplify(self.ln).as_long()]
        )

    def const_value(self) -> str:
        n = z3.simplify(self.ln).as_long()
        return "".join(chr(z3.simplify(c).as_long()) for c in self.ch[:n])

    # ------------------------------------------------------------------ access
    def at(self, idx):
        """Code point at a (symbolic) index; 0 outside [0, cap)."""
        if z3.is_int_value(idx):
            k = idx.as_long()
            return self.ch[k] if 0 <= k < self.cap else I(0)
        r = I(0)
        for i in reversed(range(self.cap)):
            r = _if(idx == i, self.ch[i], r)
        return r

    def slice(self, start, end, cap: int | None = None) -> "BStr":
        """s[start:end] with non-negative (already normalised) symbolic bounds, Python clamping semantics."""
        cap = self.cap if cap is None else cap
        start = z3.If(start < 0, I(0), z3.If(start > self.ln, self.ln, start))
        end = z3.If(end < 0, I(0), z3.If(end > self.ln, self.ln, end))
        start, end = z3.simplify(start), z3.simplify(end)
        ln = z3.If(end > start, end - start, I(0))
        return BStr(z3.simplify(ln), [self.at(z3.simplify(start + i)) for i in range(cap)])

    def pyslice(self, lo, hi) -> "BStr":
        """s[lo:hi] where lo/hi may be None or negative (Python semantics)."""
        lo = I(0) if lo is None else lo
        hi = self.ln if hi is None else hi
        lo = z3.If(lo < 0, self.ln + lo, lo)
        hi = z3.If(hi < 0, self.ln + hi, hi)
        return self.slice(lo, hi)

    # ------------------------------------------------------------------ predicates
    def eq(self, o: "BStr"):
        n = min(self.cap, o.cap)
        cs = [self.ln == o.ln]
        for i in range(n):
            cs.append(z3.Or(self.ln <= i, self.ch[i] == o.ch[i]))
        # if one side is longer than the other's capacity they cannot be equal unless len fits (len equality + cap)
        if self.cap != o.cap:
            cs.append(self.ln <= n)
        return z3.And(*cs)

    def startswith(self, p: "BStr"):
        cs = [p.ln <= self.ln]
        for i in range(p.cap):
            cs.append(z3.Or(p.ln <= i, p.ch[i] == (self.ch[i] if i < self.cap else I(-1))))
        return z3.And(*cs)

    def endswith(self, p: "BStr"):
        off = self.ln - p.ln
        cs = [p.ln <= self.ln]
        for i in range(p.cap):
            cs.append(z3.Or(p.ln <= i, p.ch[i] == self.at(off + i)))
        return z3.And(*cs)

    def match_at(self, k, p: "BStr"):
        """p occurs in self at (symbolic or concrete) offset k."""
        cs = [k >= 0, k + p.ln <= self.ln]
        for i in range(p.cap):
            cs.append(z3.Or(p.ln <= i, p.ch[i] == self.at(k + i if z3.is_expr(k) else I(k + i))))
        return z3.And(*cs)

    def contains(self, p: "BStr"):
        return z3.Or(*[self.match_at(I(k), p) for k in range(self.cap + 1)])

    def count_char(self, c: int):
        return z3.Sum([z3.If(z3.And(self.ln > i, self.ch[i] == c), 1, 0) for i in range(self.cap)]) if self.cap else I(0)

    def all_chars(self, pred):
        return z3.And(*[z3.Or(self.ln <= i, pred(self.ch[i])) for i in range(self.cap)]) if self.cap else TRUE

    # ------------------------------------------------------------------ stripping
    def lead_count(self, pred):
        cnt, run = I(0), TRUE
        for i in range(self.cap):
            run = z3.And(run, self.ln > i, pred(self.ch[i]))
            cnt = z3.If(run, I(i + 1), cnt)
        return cnt

    def trail_count(self, pred):
        cnt, run = I(0), TRUE
        for k in range(self.cap):
            run = z3.And(run, self.ln > k, pred(self.at(self.ln - 1 - k)))
            cnt = z3.If(run, I(k + 1), cnt)
        return cnt

    @staticmethod
    def _charset_pred(chars):
        if isinstance(chars, BStr):  # symbolic character set (str.lstrip(other_string))
            return lambda c: z3.Or(*[z3.And(chars.ln > j, chars.ch[j] == c) for j in range(chars.cap)]) if chars.cap else FALSE
        codes = [ord(x) for x in chars]
        return lambda c: z3.Or(*[c == k for k in codes]) if codes else FALSE

    def lstrip(self, chars) -> "BStr":
        return self.slice(self.lead_count(self._charset_pred(chars)), self.ln)

    def rstrip(self, chars) -> "BStr":
        return self.slice(I(0), self.ln - self.trail_count(self._charset_pred(chars)))

    def strip(self, chars) -> "BStr":
        return self.lstrip(chars).rstrip(chars)

    # ------------------------------------------------------------------ building
    def concat(self, o: "BStr", cap: int | None = None) -> "BStr":
        full = self.cap + o.cap
        cap = full if cap is None else min(cap, full)
        ch = []
        for i in range(cap):
            mine = self.ch[i] if i < self.cap else I(0)
            ch.append(_if(self.ln > i, mine, o.at(z3.simplify(i - self.ln))))
        r = BStr(z3.simplify(self.ln + o.ln), ch)
        if cap < full:
            BStr.side.append(r.ln <= cap)
        return r

    side: list = []  # capacity side conditions accumulated by truncating operations

    def upper(self) -> "BStr":
        return BStr(self.ln, [z3.If(z3.And(c >= 97, c <= 122), c - 32, c) for c in self.ch])

    def lower(self) -> "BStr":
        return BStr(self.ln, [z3.If(z3.And(c >= 65, c <= 90), c + 32, c) for c in self.ch])

    def replace_char(self, a: int, b: int) -> "BStr":
        return BStr(self.ln, [z3.If(c == a, I(b), c) for c in self.ch])

    def split(self, sep: str) -> "GList":
        """str.split(sep) for a one-character constant separator: cap+1 guarded parts (guards are prefix-closed)."""
        assert len(sep) == 1
        c = ord(sep)
        parts, start, alive = [], I(0), TRUE
        for _ in range(self.cap + 1):
            idx = I(-1)
            for i in reversed(range(self.cap)):
                idx = z3.If(z3.And(start <= i, self.ln > i, self.ch[i] == c), I(i), idx)
            idx = z3.simplify(idx)
            end = z3.If(idx < 0, self.ln, idx)
            parts.append((alive, self.slice(start, end)))
            alive = z3.simplify(z3.And(alive, idx >= 0))
            start = z3.simplify(end + 1)
        return GList(parts)

    def replace(self, old: str, new: str, cap: int | None = None) -> "BStr":
        """str.replace(old, new) for constant, non-empty `old` (all non-overlapping occurrences, left to right)."""
        assert old
        p = BStr.const(old)
        q = BStr.const(new)
        cap = cap if cap is not None else self.cap + max(0, len(new) - len(old)) * (self.cap // len(old))
        out = BStr.const("")
        # skip[i] = number of further source characters covered by a match that started earlier
        skip = I(0)
        for i in range(self.cap):
            here = z3.And(self.ln > i, skip == 0, self.match_at(I(i), p))
            piece_match = q
            piece_char = BStr(z3.If(z3.And(self.ln > i, skip == 0), I(1), I(0)), [self.ch[i]])
            piece = ite_str(here, piece_match, piece_char)
            out = out.concat(piece, cap=cap)
            skip = z3.simplify(z3.If(here, I(len(old) - 1), z3.If(skip > 0, skip - 1, I(0))))
        return out

    def replace_first(self, old: str, new: str) -> "BStr":
        """str.replace(old, new, 1) for constant, non-empty `old`."""
        p = BStr.const(old)
        q = BStr.const(new)
        idx = I(-1)
        for i in reversed(range(self.cap)):
            idx = z3.If(self.match_at(I(i), p), I(i), idx)
        idx = z3.simplify(idx)
        replaced = self.slice(I(0), idx).concat(q).concat(self.slice(idx + len(old), self.ln))
        return ite_str(idx >= 0, replaced, self)

    def __repr__(self) -> str:
        return f"BStr(cap={self.cap})"


def ite_str(c, a: BStr, b: BStr) -> BStr:
    if z3.is_true(c):
        return a
    if z3.is_false(c):
        return b
    n = max(a.cap, b.cap)
    x = a.ch + [I(0)] * (n - a.cap)
    y = b.ch + [I(0)] * (n - b.cap)
    return BStr(z3.If(c, a.ln, b.ln), [_if(c, p, q) for p, q in zip(x, y)])


def int_to_str(n, digits: int = 4) -> BStr:
    """str(n) for |n| < 10**digits (side condition recorded)."""
    BStr.side.append(z3.And(n > -(10**digits), n < 10**digits))
    neg = n < 0
    a = z3.If(neg, -n, n)
    nd = I(1)
    for d in range(1, digits):
        nd = z3.If(a >= 10**d, I(d + 1), nd)
    # digit k from the left (k < nd): (a // 10**(nd-1-k)) % 10
    def digit(k):
        r = I(0)
        for d in range(1, digits + 1):
            if d - 1 - k >= 0:
                r = z3.If(nd == d, (a / (10 ** (d - 1 - k))) % 10, r)
        return r + 48

    body = BStr(nd, [digit(k) for k in range(digits)])
    return ite_str(neg, BStr.const("-").concat(body), body)


class GList:
    """A list whose elements carry presence guards: element i is present iff items[i][0]."""

    def __init__(self, items) -> None:
        self.items = list(items)

    def __len__(self) -> int:
        return len(self.items)

    def length(self):
        return z3.Sum([z3.If(g, 1, 0) for g, _ in self.items]) if self.items else I(0)

    def join(self, sep: BStr, cap: int | None = None) -> BStr:
        out = BStr.const("")
        seen = FALSE  # some element already emitted
        for g, v in self.items:
            v = v if isinstance(v, BStr) else BStr.const(v)
            piece = ite_str(g, ite_str(seen, sep.concat(v), v), BStr.const(""))
            out = out.concat(piece, cap=cap)
            seen = z3.simplify(z3.Or(seen, g))
        return out


def show(model: z3.ModelRef, s: BStr) -> str:
    n = model.eval(s.ln, model_completion=True).as_long()
    n = max(0, min(n, s.cap))
    return "".join(chr(max(0, min(0x10FFFF, model.eval(s.ch[i], model_completion=True).as_long()))) for i in range(n))
