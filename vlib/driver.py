"""Driver: ./bin/check <Cxx> [--tier quick|thorough] [--replay file]

Runs the sub-checks a property module (props/cXX.py) plans, in parallel sub-processes:
  CH  - a CrossHair harness partition (Engine C): z3 decides every branch of the real bytecode, verdict per partition
  K   - an Engine-K job: AST->SMT encoding of a real function, z3 (cvc5 cross-check in thorough) decides the query
Counterexamples are replayed natively on the real code before anything is printed as VIOLATION.
Exit: 0 held on everything explored; 1 reproducing violation outside the known findings; 3 harness error.
"""
from __future__ import annotations

import argparse
import concurrent.futures as cf
import hashlib
import importlib
import inspect
import json
import os
import subprocess
import sys
import time
from dataclasses import dataclass, field
from pathlib import Path

ROOT = Path(__file__).resolve().parents[1]
PY = "/verif/.venv/bin/python"
KF_FILE = ROOT / "known_findings.json"


from vlib.plan import CH, K  # noqa: E402


def _run(cmd: list[str], env: dict, timeout: float) -> tuple[int, str, str]:
    e = dict(os.environ)
    e.update({k: str(v) for k, v in env.items()})
    e.setdefault("PYTHONHASHSEED", "0")
    try:
        p = subprocess.run(cmd, env=e, capture_output=True, text=True, timeout=timeout, cwd=str(ROOT))
        return p.returncode, p.stdout, p.stderr
    except subprocess.TimeoutExpired as ex:
        return 124, (ex.stdout or b"").decode() if isinstance(ex.stdout, bytes) else (ex.stdout or ""), "TIMEOUT"


def run_ch_partition(c: CH, part: str, tier: str) -> dict:
    env = {"VERIF_FIX": part, "VERIF_TIER": tier, **c.env}
    cmd = [PY, "-m", "vlib.ch_worker", c.module, c.func, str(c.timeout)]
    if c.per_path:
        cmd.append(str(c.per_path))
    rc, out, err = _run(cmd, env, timeout=c.timeout * 2.5 + 120)
    for line in out.splitlines():
        if line.startswith("CHRESULT "):
            r = json.loads(line[len("CHRESULT "):])
            break
    else:
        if rc == 124:  # the worker overran even the outer time limit: nothing was decided (inconclusive, not an error)
            r = {"verdict": "not_confirmed", "paths": 0, "wall_s": round(c.timeout * 2.5 + 120, 1), "note": "worker killed at the outer time limit"}
        else:
            r = {"verdict": "error", "error": f"worker rc={rc}: {err[-1500:]}"}
    r.update(check=c.id, partition=part, engine="C", allow_empty=c.allow_empty)
    return r


SPLIT_DEPTH = {"quick": 0, "thorough": 2}
SPLIT_WIDTH = 16  # every selector of every harness has at most 16 values


def run_k(k: K, tier: str) -> dict:
    env = {"VERIF_TIER": tier, **k.env}
    rc, out, err = _run([PY, "-m", "vlib.k_worker", k.module, k.func], env, timeout=k.timeout)
    for line in out.splitlines():
        if line.startswith("KRESULT "):
            r = json.loads(line[len("KRESULT "):])
            break
    else:
        if rc == 124:  # out of time: inconclusive, not an error
            r = {"queries": [{"id": "(whole job)", "verdict": "inconclusive", "detail": f"worker exceeded {k.timeout:.0f}s", "seconds": k.timeout,
                              "bound": "-"}]}
        else:
            r = {"queries": [], "error": f"worker rc={rc}: {(err or out)[-1500:]}"}
    r.update(check=k.id, engine="K")
    return r


def replay_native(module: str, func: str, args: list, env: dict | None = None) -> dict:
    """Call the harness function natively (no tracing) in a fresh process; classify the outcome."""
    payload = json.dumps({"module": module, "func": func, "args": args})
    rc, out, err = _run([PY, "-m", "vlib.replay", payload], {"VERIF_FIX": "", **(env or {})}, timeout=120)
    for line in out.splitlines():
        if line.startswith("REPLAY "):
            return json.loads(line[len("REPLAY "):])
    return {"outcome": "error", "detail": f"rc={rc} {err[-800:]}"}


def load_kf() -> dict:
    if KF_FILE.exists():
        return json.loads(KF_FILE.read_text())
    return {"findings": [], "fixed": []}


def source_hash(dotted: str) -> dict:
    """Qualified name -> sha1 of the current source of that function in /repo (shows the encoding is regenerated)."""
    try:
        mod_name, _, attr = dotted.partition(":")
        obj = importlib.import_module(mod_name)
        for part in attr.split("."):
            obj = getattr(obj, part)
        obj = inspect.unwrap(obj.__func__ if hasattr(obj, "__func__") else obj)
        src = inspect.getsource(obj)
        return {"name": dotted, "sha1": hashlib.sha1(src.encode()).hexdigest()[:12], "lines": src.count("\n")}
    except Exception as e:  # noqa: BLE001
        return {"name": dotted, "error": f"{type(e).__name__}: {e}"}


def main() -> int:
    ap = argparse.ArgumentParser()
    ap.add_argument("prop")
    ap.add_argument("--tier", default=os.environ.get("VERIF_TIER", "quick"), choices=["quick", "thorough"])
    ap.add_argument("--replay")
    ap.add_argument("--only", help="run only sub-checks whose id contains this text")
    ap.add_argument("--jobs", type=int, default=int(os.environ.get("VERIF_JOBS", "16")))
    a = ap.parse_args()
    pid = a.prop.upper()
    seed = int(os.environ.get("VERIF_SEED", "0"))
    os.environ["VERIF_TIER"] = a.tier
    os.environ["VERIF_SEED"] = str(seed)

    if a.replay:
        rp = json.loads(Path(a.replay).read_text())
        r = replay_native(rp["module"], rp["func"], rp["args"], rp.get("env"))
        print(json.dumps(r, indent=1))
        if r["outcome"] in ("false", "repo_exception"):
            print(f"VIOLATION property={pid} replay={a.replay}")
            return 1
        print("replay does not reproduce on the current tree")
        return 0

    t0 = time.time()
    prop = importlib.import_module(f"props.{pid.lower()}")
    plan = prop.plan(a.tier)
    if a.only:
        plan = [s for s in plan if a.only in s.id]
    kf = load_kf()
    my_kf = [f for f in kf["findings"] if f["property"] == pid and f.get("engine") == "C"]

    violations, harness_errors, inconclusive, known_lines = [], [], [], {}
    results: list[dict] = []

    # 1. known findings: replay each listed input on the current tree
    for f in my_kf:
        rp = f["replay"]
        if a.only and a.only not in rp["func"] and a.only not in rp["module"]:
            continue
        # the listed inputs are selector vectors of the quick-tier decoders
        r = replay_native(rp["module"], rp["func"], rp["args"], {"VERIF_KF_OFF": "1", "VERIF_TIER": "quick", **rp.get("env", {})})
        if r["outcome"] == "false" and f["label"] in r.get("detail", ""):
            known_lines[f["id"]] = f"KNOWN-FINDING: property={pid} {f['id']}: {f['what']}"
        else:
            print(f"note: known finding {f['id']} no longer reproduces (now: {r['outcome']} {r.get('detail', '')[:200]})")

    # 2. run the plan
    jobs = []
    with cf.ThreadPoolExecutor(max_workers=a.jobs) as ex:
        for s in plan:
            if isinstance(s, CH):
                for part in s.partitions:
                    jobs.append((s, part, ex.submit(run_ch_partition, s, part, a.tier)))
            else:
                jobs.append((s, None, ex.submit(run_k, s, a.tier)))
        for s, part, fut in jobs:
            r = fut.result()
            results.append(r)
        # 2b. a partition that ran out of time is split on its next selector (and once more if needed); the parent's verdict
        # is the conjunction of its children (children that fix a value outside the selector's range are empty and dropped); the children replace the parent
        for depth in range(SPLIT_DEPTH.get(a.tier, 0)):
            todo = [(i, r) for i, r in enumerate(results)
                    if r.get("engine") == "C" and r.get("verdict") == "not_confirmed" and r.get("split_depth", 0) == depth]
            if not todo:
                break
            by_id = {s.id: s for s in plan if isinstance(s, CH)}
            futs = []
            for i, r in todo:
                fixed_idx = [int(x.split(":")[0]) for x in r["partition"].split(",") if x]
                nxt = max(fixed_idx) + 1 if fixed_idx else 0
                base = r["partition"] + "," if r["partition"] else ""
                futs.append((i, r, [ex.submit(run_ch_partition, by_id[r["check"]], f"{base}{nxt}:{v}", a.tier) for v in range(SPLIT_WIDTH)]))
            replaced = {}
            for i, r, fs in futs:
                kids = [f.result() for f in fs]
                keep = []
                for k in kids:
                    k["split_depth"] = depth + 1
                    k["split_of"] = r["partition"]
                    empty = k.get("verdict") == "confirmed" and k.get("harness_stats", {}).get("oracle", 0) == 0
                    if not empty:  # a value outside the selector's range: nothing to decide
                        keep.append(k)
                if keep:
                    keep[0]["paths"] = keep[0].get("paths", 0) + r.get("paths", 0)  # the parent's spent effort stays visible
                    keep[0]["wall_s"] = round(keep[0].get("wall_s", 0) + r.get("wall_s", 0), 2)
                    replaced[i] = keep
            results = [x for i, r in enumerate(results) for x in (replaced.get(i) or [r])]

    # 3. classify
    n_queries = n_confirmed = n_paths = n_nontrivial = 0
    solver_s = 0.0
    samples = []
    replay_dir = ROOT / "replays"
    replay_dir.mkdir(exist_ok=True)
    for r in results:
        if r["engine"] == "C":
            n_queries += 1
            n_paths += r.get("paths", 0)
            solver_s += r.get("wall_s", 0)
            v = r["verdict"]
            tag = f"{r['check']}[{r['partition']}]"
            if v == "confirmed":
                reached = r.get("harness_stats", {}).get("oracle", 0)
                if reached < 1 and r.get("allow_empty") and r.get("confirmed_paths", 0) >= 1:
                    n_queries -= 1  # an empty combination of selector values: nothing was to be decided
                elif r.get("confirmed_paths", 0) < 1 or reached < 1:
                    inconclusive.append(f"{tag}: vacuous (confirmed_paths={r.get('confirmed_paths')}, oracle reached={reached})")
                else:
                    n_confirmed += 1
                    n_nontrivial += reached
            elif v == "counterexample":
                cex = r.get("cex")
                if not cex:
                    harness_errors.append(f"{tag}: counterexample not parseable: {r.get('cex_message')}")
                    continue
                rr = replay_native(r["module"], r["function"], cex["args"])
                sig = _signature(rr)
                rp = {"property": pid, "module": r["module"], "func": r["function"], "args": cex["args"],
                      "crosshair_message": r.get("cex_message"), "native": rr, "signature": sig}
                h = hashlib.sha1(json.dumps([r["module"], r["function"], cex["args"]], sort_keys=True).encode()).hexdigest()[:10]
                path = replay_dir / f"{pid}-{h}.json"
                if rr["outcome"] in ("false", "repo_exception"):
                    path.write_text(json.dumps(rp, indent=1))
                    violations.append((str(path), f"{tag}: {r.get('cex_message')} -> native {sig}: {rr.get('detail', '')[:300]}"))
                else:
                    harness_errors.append(f"{tag}: counterexample does not reproduce natively ({rr}); args={cex['args']}")
            elif v in ("not_confirmed", "pre_unsat"):
                inconclusive.append(f"{tag}: {v} after {r.get('paths')} paths / {r.get('wall_s')}s")
            else:
                harness_errors.append(f"{tag}: {r.get('error')} {r.get('traceback', '')[-600:]} {r.get('messages', '')}")
            if len(samples) < 6:
                samples.append({"check": r["check"], "partition": r["partition"], "verdict": v, "paths": r.get("paths"),
                                "seconds": r.get("wall_s")})
        else:
            if r.get("error"):
                harness_errors.append(f"{r['check']}: {r['error']}")
            for q in r.get("queries", []):
                n_queries += 1
                solver_s += q.get("seconds", 0)
                tag = f"{r['check']}/{q['id']}"
                v = q["verdict"]
                if v == "holds":
                    n_confirmed += 1
                    n_nontrivial += 1
                elif v == "violation":
                    rp = {"property": pid, "engine": "K", "query": tag, **q.get("replay", {}), "model": q.get("cex")}
                    h = hashlib.sha1(json.dumps(rp, sort_keys=True, default=str).encode()).hexdigest()[:10]
                    path = replay_dir / f"{pid}-{h}.json"
                    path.write_text(json.dumps(rp, indent=1, default=str))
                    violations.append((str(path), f"{tag}: {q.get('detail', '')} cex={q.get('cex')}"))
                elif v == "known":
                    known_lines.setdefault(q["known_id"], f"KNOWN-FINDING: property={pid} {q['known_id']}: {q.get('detail', '')}")
                elif v == "harness_error":
                    harness_errors.append(f"{tag}: {q.get('detail')}")
                else:
                    inconclusive.append(f"{tag}: {v} {q.get('detail', '')}")
                if len(samples) < 10:
                    samples.append({"query": tag, "verdict": v, "seconds": q.get("seconds"), "bound": q.get("bound"),
                                    "cex": q.get("cex")})

    # K-side known findings listed in the file but not re-derived this run are simply not printed.
    known_lines = list(known_lines.values())
    for line in known_lines:
        print(line)
    for i in inconclusive:
        print("INCONCLUSIVE", i)
    for e in harness_errors:
        print("HARNESS-ERROR", e)
    for path, what in violations:
        print(f"VIOLATION property={pid} replay={path}")
        print("  ", what)

    # a few concrete inputs of the spaces the CrossHair partitions quantified over (decoded natively from the harness's
    # own enumerator), so that a reader sees what a case looks like
    seen_h = set()
    for s_ in plan:
        if isinstance(s_, CH) and (s_.module, s_.func) not in seen_h and len(seen_h) < 4:
            seen_h.add((s_.module, s_.func))
            try:
                import itertools

                hm = importlib.import_module(s_.module)
                for args in itertools.islice(hm.CANDIDATES(s_.func), 0, 40, 19):
                    samples.append({"harness_input": f"{s_.module}.{s_.func}", "args": args})
            except Exception:  # noqa: BLE001
                pass
    wall = time.time() - t0
    funcs = [source_hash(n) for n in getattr(prop, "FUNCTIONS", [])]
    ev = {
        "property_id": pid,
        "tier": a.tier,
        "seed": seed,
        "level": "other",
        "coverage": {
            "explanation": prop.EXPLANATION,
            "evaluations": n_queries + n_paths,
            "distinct_nontrivial": n_nontrivial,
            "rule": "evaluations = solver queries/partitions + CrossHair paths explored; distinct_nontrivial = Engine-K "
            "queries decided 'holds' + CrossHair paths of confirmed partitions that passed the preconditions, left the "
            "known-finding regions and reached the oracle (counted inside the harness)",
            "samples": samples,
            "exhaustive": not inconclusive and not harness_errors,
            "functions_encoded": funcs,
            "bounds": getattr(prop, "BOUNDS", {}).get(a.tier, getattr(prop, "BOUNDS", {})),
            "queries": n_queries,
            "confirmed": n_confirmed,
            "inconclusive": inconclusive,
            "harness_errors": harness_errors,
            "known_findings_reported": known_lines,
            "crosshair_paths": n_paths,
            "solver_cpu_s": round(solver_s, 1),
            "subchecks": [
                {"id": s.id, "engine": "C" if isinstance(s, CH) else "K", "desc": s.desc,
                 **({"partitions": len(s.partitions), "timeout": s.timeout, "bounds": s.bounds,
                     "symbolic": s.symbolic, "stubs": s.stubs} if isinstance(s, CH) else {})}
                for s in plan
            ],
            "results": [_brief(r) for r in results],
        },
        "assumptions": list(getattr(prop, "ASSUMPTIONS", [])),
        "wall_s": round(wall, 1),
        "violations": len(violations),
    }
    # runs against a deliberately changed tree (seeded-change regression) write their evidence elsewhere
    evdir = Path(os.environ["VERIF_EVIDENCE_DIR"]) if os.environ.get("VERIF_EVIDENCE_DIR") else ROOT / "evidence"
    evdir.mkdir(parents=True, exist_ok=True)
    (evdir / f"{pid}.json").write_text(json.dumps(ev, indent=1, default=str))
    print(f"{pid} {a.tier}: {n_confirmed}/{n_queries} decided-holds, {len(inconclusive)} inconclusive, "
          f"{len(known_lines)} known findings, {len(violations)} violations, {len(harness_errors)} harness errors, "
          f"{n_paths} paths, {wall:.0f}s")
    if violations:
        return 1
    if harness_errors:
        return 3
    return 0


def _brief(r: dict) -> dict:
    if r["engine"] == "C":
        return {k: r.get(k) for k in ("check", "partition", "verdict", "paths", "confirmed_paths", "harness_stats", "wall_s")}
    return {"check": r["check"], "queries": [{k: q.get(k) for k in ("id", "verdict", "seconds", "bound", "solver", "cvc5")}
                                              for q in r.get("queries", [])], "validation": r.get("validation")}


def _signature(r: dict) -> str:
    if r["outcome"] == "repo_exception":
        return f"{r['exc_type']}@{r.get('repo_frame', '?')}"
    return r["outcome"]


if __name__ == "__main__":
    sys.exit(main())
