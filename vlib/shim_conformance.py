"""Shim conformance (DESIGN 3.3): the real visitor must not be able to tell shim trees from real mypy trees.

  real_trees(files)        - parse Python sources with the real mypy (the repository's own _get_mypy_build/_get_mypy_asts)
  run_visitor(trees, ...)  - the repository's walker + visitor -> API.to_dict()
  check_corpus(root)       - real vs converted-shim run over a package on disk
  check_builder(...)       - builder-made shim tree vs the real mypy tree of its rendering

Used by the 'conformance' sub-check of every shim-based property, on every run.
"""
from __future__ import annotations

import json
import pathlib
import shutil
import tempfile

import safeds_stubgen.api_analyzer._ast_visitor as V
import safeds_stubgen.api_analyzer._ast_walker as W
import safeds_stubgen.api_analyzer._get_api as G
from safeds_stubgen.api_analyzer import API, TypeSourcePreference, TypeSourceWarning
from safeds_stubgen.docstring_parsing import PlaintextDocstringParser
from vlib import shim


def real_trees(root: pathlib.Path):
    files = sorted(str(p) for p in root.glob("./**/*.py") if p.name != "__init__.py")
    pkgs = sorted(str(p.parent) for p in root.glob("./**/__init__.py"))
    build = G._get_mypy_build(files)
    return G._get_mypy_asts(build, files, pkgs), build


def write_package(sources: dict[str, str]) -> pathlib.Path:
    """sources: relative path -> text. Returns the temp root (caller removes it)."""
    root = pathlib.Path(tempfile.mkdtemp(prefix="verif_conf_", dir="/tmp"))
    for rel, text in sources.items():
        p = root / rel
        p.parent.mkdir(parents=True, exist_ok=True)
        p.write_text(text)
    return root


def run_visitor(trees, package: str = "pkg", aliases=None, parser=None,
                preference=TypeSourcePreference.CODE, warning=TypeSourceWarning.IGNORE):
    api = API("", package, "")
    v = V.MyPyAstVisitor(parser or PlaintextDocstringParser(), api, aliases or {}, preference, warning)
    w = W.ASTWalker(v)
    errors = []
    for t in trees:
        try:
            w.walk(t)
        except Exception as e:  # noqa: BLE001
            errors.append(f"{getattr(t, 'fullname', '?')}: {type(e).__name__}: {e}")
            v._MyPyAstVisitor__declaration_stack.clear()
    return api.to_dict(), errors


def _canon(d) -> str:
    return json.dumps(d, sort_keys=True, default=str)


def check_corpus(root: pathlib.Path) -> dict:
    """Real mypy trees vs their generic shim conversion: identical API and identical errors."""
    trees, _ = real_trees(root)
    d_real, e_real = run_visitor(trees, package=root.name)
    shim.install()
    try:
        conv = shim.Converter()
        d_shim, e_shim = run_visitor([conv.conv(t) for t in trees], package=root.name)
    finally:
        shim.uninstall()
    ok = _canon(d_real) == _canon(d_shim) and e_real == e_shim
    return {"root": str(root), "modules": len(d_real["modules"]), "classes": len(d_real["classes"]),
            "functions": len(d_real["functions"]), "parameters": len(d_real["parameters"]), "equal": ok,
            "errors_real": e_real[:3], "errors_shim": e_shim[:3]}


def check_builder(sources: dict[str, str], built_trees, pick=None) -> dict:
    """built_trees: shim MypyFile objects made by the builders for the same sources (same order as mypy yields them).
    pick: optional function api_dict -> comparable projection (e.g. only functions/parameters)."""
    root = write_package(sources)
    try:
        trees, _ = real_trees(root)
        # make ids independent of the temp directory name: mypy's fullnames start at the package directory
        d_real, e_real = run_visitor(trees)
        shim.install()
        try:
            conv = shim.Converter()
            d_conv, e_conv = run_visitor([conv.conv(t) for t in trees])
            d_built, e_built = run_visitor(built_trees)
        finally:
            shim.uninstall()
    finally:
        shutil.rmtree(root, ignore_errors=True)
    pick = pick or (lambda d: d)
    return {
        "real_vs_converted": _canon(pick(d_real)) == _canon(pick(d_conv)) and e_real == e_conv,
        "real_vs_builder": _canon(pick(d_real)) == _canon(pick(d_built)) and e_real == e_built,
        "errors_real": e_real[:3], "errors_builder": e_built[:3],
        "real": pick(d_real), "built": pick(d_built),
    }


if __name__ == "__main__":
    import sys

    for r in sys.argv[1:]:
        print(check_corpus(pathlib.Path(r)))
