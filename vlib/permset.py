"""Schedules as variables (DESIGN C08): Python's set iteration order depends on the string-hash seed. PermSet is a
set whose iteration order is an explicit parameter (a permutation index); `permuted(k)` rebinds the name `set` in the
repository modules that build sets, so that the real code iterates in the chosen order.  f(x) under order k must
equal f(x) under order 0 for every k - that is independence from the hash seed, decided instead of sampled."""
from __future__ import annotations

import itertools

import safeds_stubgen.api_analyzer._api as API_MOD
import safeds_stubgen.api_analyzer._ast_visitor as V
import safeds_stubgen.api_analyzer._get_api as G
import safeds_stubgen.stubs_generator._helper as HLP
import safeds_stubgen.stubs_generator._stub_string_generator as SG

ORDER = [0]  # current permutation index (read at iteration time)


class PermSet:
    def __init__(self, items=()):
        self._items: list = []
        for x in items:
            self.add(x)

    def add(self, x) -> None:
        if x not in self._items:
            self._items.append(x)

    def update(self, xs) -> None:
        for x in xs:
            self.add(x)

    def union(self, *others):
        r = PermSet(self._items)
        for o in others:
            r.update(o)
        return r

    def pop(self):
        return self._ordered().pop(0)

    def _ordered(self) -> list:
        n = len(self._items)
        if n <= 1:
            return list(self._items)
        perms = list(itertools.permutations(range(n))) if n <= 4 else [tuple(range(n)), tuple(reversed(range(n)))]
        p = perms[ORDER[0] % len(perms)]
        return [self._items[i] for i in p]

    def __iter__(self):
        return iter(self._ordered())

    def __len__(self) -> int:
        return len(self._items)

    def __contains__(self, x) -> bool:
        return x in self._items

    def __bool__(self) -> bool:
        return bool(self._items)

    def __eq__(self, other) -> bool:
        return isinstance(other, (PermSet, set, frozenset)) and len(other) == len(self) and all(x in self for x in other)

    def __deepcopy__(self, memo):
        return PermSet(self._items)

    def __repr__(self) -> str:
        return f"PermSet({self._items!r})"


MODULES = (API_MOD, V, G, HLP, SG)


class permuted:
    def __init__(self, k: int) -> None:
        self.k = k

    def __enter__(self):
        ORDER[0] = self.k
        for m in MODULES:
            m.__dict__["set"] = PermSet
        return self

    def __exit__(self, *a):
        ORDER[0] = 0
        for m in MODULES:
            m.__dict__.pop("set", None)
        return False
